#!/bin/bash
# selftest/seedtest.sh <seed-dir-name> <property> [check args...]
# Confirms a seeded change (seeded/<name>/patch.diff + demo.py) on a scratch copy of /repo's bqskit package and runs
# the property's check against that copy (PYTHONPATH override; /repo itself is never touched, so concurrent runs are safe).
set -u
name=$1; prop=$2; shift 2
cd "$(dirname "$0")/.."
d=seeded/$name
mut=/tmp/mut_$name
rm -rf "$mut"; mkdir -p "$mut"; cp -r /repo/bqskit "$mut/bqskit"
( cd "$mut" && patch -p1 -s < "/verif/$d/patch.diff" ) || { echo "PATCH-FAILED"; exit 2; }
# demos may start a real runtime on fixed localhost ports: run them in a private network namespace
NS="unshare -n -p -f --mount-proc sh -c"
echo "== demo on original:"; ( cd /tmp && $NS "ip link set lo up && PYTHONPATH=/repo timeout 900 /venv/bin/python /verif/$d/demo.py" >/tmp/demo_orig_$name.log 2>&1; echo "exit=$?" )
echo "== demo with change:"; ( cd /tmp && $NS "ip link set lo up && PYTHONPATH=$mut timeout 900 /venv/bin/python /verif/$d/demo.py" >/tmp/demo_mut_$name.log 2>&1; echo "exit=$?"; tail -3 /tmp/demo_mut_$name.log | cut -c1-200 )
echo "== check $prop $* with change:"
PYTHONPATH=$mut ./check "$prop" --no-evidence "$@" 2>&1 | grep -E "VIOLATION|KNOWN-FINDING|HARNESS-ERROR|tier=|refuted" | cut -c1-220 | head -20
echo "check-exit=${PIPESTATUS[0]}"
rm -rf "$mut"
