#!/usr/bin/env python3
"""Rebuilds vf/weights.json (scheduling hints: obligation -> wall seconds of its last run) from
evidence/<id>.json and evidence/thorough/<id>.json. Only the ORDER in which obligations are started
depends on it."""
import glob
import json
import os

ROOT = os.path.dirname(os.path.dirname(os.path.abspath(__file__)))
path = os.path.join(ROOT, 'vf', 'weights.json')
try:
    w = json.load(open(path))
except Exception:
    w = {}
for f in sorted(glob.glob(os.path.join(ROOT, 'evidence', '*.json')) + glob.glob(os.path.join(ROOT, 'evidence', 'thorough', '*.json'))):
    ev = json.load(open(f))
    pid, tier = ev['property_id'], ev['tier']
    d = {}
    for s in ev['coverage'].get('samples', []):
        if s.get('wall_s') is not None:
            d[s['obligation']] = round(float(s['wall_s']), 1)
    w.setdefault(pid, {})[tier] = d
json.dump(w, open(path, 'w'), indent=0, sort_keys=True)
print('weights for', sorted(w))
