#!/bin/bash
# Offline bootstrap of the overlay venv used by every check (idempotent).
set -e
V=/verif/.venv
if [ ! -x "$V/bin/python" ] || ! "$V/bin/python" -c "import crosshair, z3, bqskit" >/dev/null 2>&1; then
  rm -rf "$V"
  /venv/bin/python -m venv "$V"
  SP=$("$V/bin/python" -c "import sysconfig; print(sysconfig.get_paths()['purelib'])")
  printf "import site; site.addsitedir('/venv/lib/python3.12/site-packages')\n/repo\n" > "$SP/verif_overlay.pth"
  PIP_NO_INDEX=1 "$V/bin/pip" install -q --no-index --find-links /opt/veriftools/wheels crosshair-tool cvc5 >/dev/null
  "$V/bin/python" -c "import crosshair, z3, bqskit; print('overlay venv ready', z3.get_version_string())"
fi
# optional accelerator (vf/arena.py): the checks run the same without it, only slower
N=/verif/vf/native
if [ ! -f "$N/arena_cache.so" ] || [ "$N/arena_cache.c" -nt "$N/arena_cache.so" ]; then
  (cc -O2 -shared -fPIC -o "$N/arena_cache.so.tmp" "$N/arena_cache.c" && mv "$N/arena_cache.so.tmp" "$N/arena_cache.so") \
    >/dev/null 2>&1 || rm -f "$N/arena_cache.so.tmp"
fi
exit 0
