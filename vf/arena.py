"""Optional accelerator: caches CPython's small mmap-ed arena blocks (see native/arena_cache.c).

install() is a no-op when the shared object was not built (no C compiler) or VF_ARENA=0."""
from __future__ import annotations

import ctypes
import os

_SO = os.path.join(os.path.dirname(os.path.abspath(__file__)), 'native', 'arena_cache.so')
_KEEP = []


def install() -> bool:
    if os.environ.get('VF_ARENA', '1') != '1' or not os.path.exists(_SO):
        return False
    try:
        lib = ctypes.CDLL(_SO)
        alloc = ctypes.c_void_p.in_dll(lib, 'vf_arena_allocator')
        ctypes.pythonapi.PyObject_SetArenaAllocator.argtypes = [ctypes.c_void_p]
        ctypes.pythonapi.PyObject_SetArenaAllocator.restype = None
        ctypes.pythonapi.PyObject_SetArenaAllocator(ctypes.addressof(alloc))
        _KEEP.append(lib)
        return True
    except Exception:
        return False
