"""Reader for the QGL text that /repo hands to openqudit's UnitaryExpression.

  NAME<r0,r1,..>(p0,p1,..) { expr }
expr: numbers, i, pi, e^(...), cos sin tan sqrt exp ln, ~ (unary minus), + - * / ^,
matrix literals [[..],[..]] and scalar*matrix. Result: (name, radixes|None, params, sympy Matrix).
The native evaluator itself is NOT analysed; this reader is validated against it numerically
on every run (translator validation, see harness/C18.py).
"""
from __future__ import annotations

import re
from typing import Any

import sympy as sp

TOK = re.compile(r'\s*(?:(\d+\.\d*(?:[eE][-+]?\d+)?|\.\d+|\d+)|([^\W\d]\w*)|(.))', re.S)


def tokenize(s: str) -> list[tuple[str, str]]:
    out = []
    pos = 0
    s = s.strip()
    while pos < len(s):
        m = TOK.match(s, pos)
        if not m:
            raise ValueError('bad QGL at %r' % s[pos:pos + 20])
        pos = m.end()
        if m.group(1):
            out.append(('num', m.group(1)))
        elif m.group(2):
            out.append(('id', m.group(2)))
        elif m.group(3).strip():
            out.append(('op', m.group(3)))
    return out


class P:
    def __init__(self, toks: list, syms: dict) -> None:
        self.t = toks
        self.i = 0
        self.syms = syms

    def peek(self) -> tuple[str, str]:
        return self.t[self.i] if self.i < len(self.t) else ('eof', '')

    def eat(self, v: str | None = None) -> tuple[str, str]:
        tok = self.peek()
        if v is not None and tok[1] != v:
            raise ValueError('expected %r got %r at %d' % (v, tok, self.i))
        self.i += 1
        return tok

    # precedence: + - < * / < unary ~ - < ^ (right assoc) < atoms
    def expr(self) -> Any:
        v = self.term()
        while self.peek()[1] in ('+', '-'):
            op = self.eat()[1]
            r = self.term()
            v = v + r if op == '+' else v - r
        return v

    def term(self) -> Any:
        v = self.unary()
        while self.peek()[1] in ('*', '/'):
            op = self.eat()[1]
            r = self.unary()
            v = v * r if op == '*' else v / r
        return v

    def unary(self) -> Any:
        if self.peek()[1] in ('~', '-'):
            self.eat()
            return -self.unary()
        if self.peek()[1] == '+':
            self.eat()
            return self.unary()
        return self.power()

    def power(self) -> Any:
        b = self.atom()
        if self.peek()[1] == '^':
            self.eat()
            e = self.unary()
            return b ** e
        return b

    def atom(self) -> Any:
        k, v = self.peek()
        if k == 'num':
            self.eat()
            return sp.Rational(v) if ('.' not in v and 'e' not in v.lower()) else sp.Rational(v)
        if v == '(':
            self.eat('(')
            r = self.expr()
            self.eat(')')
            return r
        if v == '[':
            return self.matrix()
        if k == 'id':
            self.eat()
            if v == 'i':
                return sp.I
            if v in ('pi', '\u03c0'):
                return sp.pi
            if v == 'e':
                return sp.E
            if v in ('cos', 'sin', 'tan', 'sqrt', 'exp', 'ln'):
                self.eat('(')
                a = self.expr()
                self.eat(')')
                return {'cos': sp.cos, 'sin': sp.sin, 'tan': sp.tan, 'sqrt': sp.sqrt, 'exp': sp.exp,
                        'ln': sp.log}[v](a)
            if v in self.syms:
                return self.syms[v]
            raise ValueError('unknown identifier %r' % v)
        raise ValueError('unexpected token %r' % ((k, v),))

    def matrix(self) -> sp.Matrix:
        self.eat('[')
        rows = []
        while True:
            self.eat('[')
            row = [self.expr()]
            while self.peek()[1] == ',':
                self.eat(',')
                if self.peek()[1] == ']':      # trailing comma
                    break
                row.append(self.expr())
            self.eat(']')
            rows.append(row)
            if self.peek()[1] == ',':
                self.eat(',')
                if self.peek()[1] == ']':      # trailing comma
                    break
                continue
            break
        self.eat(']')
        return sp.Matrix(rows)


HEAD = re.compile(r'^\s*([^\W\d]\w*)\s*(?:<([^>]*)>)?\s*\(([^)]*)\)\s*\{(.*)\}\s*$', re.S)


def parse(text: str, symbols: list[sp.Symbol] | None = None) -> tuple[str, list[int] | None, list[str], sp.Matrix]:
    m = HEAD.match(text)
    if not m:
        raise ValueError('not a QGL definition: %r' % text[:60])
    name, rad, params, body = m.groups()
    pnames = [p.strip() for p in params.split(',') if p.strip()]
    radixes = [int(r) for r in rad.split(',')] if rad and rad.strip() else None
    if symbols is None:
        symbols = [sp.Symbol(p, real=True) for p in pnames]
    syms = dict(zip(pnames, symbols))
    p = P(tokenize(body), syms)
    val = p.expr()
    if p.peek()[0] != 'eof':
        raise ValueError('trailing tokens in QGL body: %r' % (p.t[p.i:p.i + 5],))
    if not isinstance(val, sp.MatrixBase):
        raise ValueError('QGL body is not a matrix')
    return name, radixes, pnames, sp.Matrix(val)
