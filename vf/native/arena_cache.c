/* Optional accelerator (see vf/arena.py): CPython 3.12 allocates the chunks of its frame
 * stack ("data stack", 16 KiB each) straight from mmap and returns them with munmap as soon as
 * the call depth drops below a chunk boundary; a hot call site that sits on a boundary costs
 * one mmap/munmap pair per call. This arena allocator keeps up to 64 freed small blocks for
 * re-use instead of unmapping them. Everything still comes from mmap, so blocks handed out by
 * the default allocator before the switch are released correctly. Called with the GIL held. */
#include <stddef.h>
#include <string.h>
#include <sys/mman.h>

#define NCACHE 64
#define MAXSZ (256 * 1024)

static void *c_ptr[NCACHE];
static size_t c_sz[NCACHE];
static int c_n = 0;

static void *vf_alloc(void *ctx, size_t n) {
    (void)ctx;
    if (n <= MAXSZ) {
        for (int i = c_n - 1; i >= 0; i--) {
            if (c_sz[i] == n) {
                void *p = c_ptr[i];
                c_n--;
                c_ptr[i] = c_ptr[c_n];
                c_sz[i] = c_sz[c_n];
                memset(p, 0, n);
                return p;
            }
        }
    }
    void *p = mmap(NULL, n, PROT_READ | PROT_WRITE, MAP_PRIVATE | MAP_ANONYMOUS, -1, 0);
    return p == MAP_FAILED ? NULL : p;
}

static void vf_free(void *ctx, void *p, size_t n) {
    (void)ctx;
    if (n <= MAXSZ && c_n < NCACHE) {
        c_ptr[c_n] = p;
        c_sz[c_n] = n;
        c_n++;
        return;
    }
    munmap(p, n);
}

struct arena_allocator {
    void *ctx;
    void *(*alloc)(void *, size_t);
    void (*free)(void *, void *, size_t);
};

struct arena_allocator vf_arena_allocator = {NULL, vf_alloc, vf_free};
