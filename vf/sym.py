"""E2: symbolic-numeric shim. Exact sympy expressions flow through the REAL numpy code.

`Sym` is a scalar that numpy's object loops understand (np.cos(x) on an object calls
x.cos()), registered as numbers.Real so `check_parameters` accepts it. `install()` applies
the harness-side environment stubs listed in DESIGN.md section 2/E2 (no repo edit):
  (i)  UnitaryMatrix.__init__ keeps an object array, skips the numeric unitarity test;
  (ii) `np.array(..., dtype=complex128)` / `.astype(complex128)` on arrays containing Sym
       keep dtype=object (through a module-level `np` proxy installed into chosen modules);
  (iii) openqudit UnitaryExpression is wrapped so that the QGL text is recorded.
"""
from __future__ import annotations

import numbers
from typing import Any

import numpy as np
import sympy as sp


def exact_of_float(x: float) -> Any:
    """A double is read as the closed-form constant it equals to within 2 ulp (small rationals,
    rational multiples of pi, sqrt(n)/m), else at face value as an exact rational."""
    import math
    if x == 0 or x != x or x in (float('inf'), float('-inf')):
        return sp.Rational(x) if x == x and abs(x) != float('inf') else sp.nan
    r = sp.Rational(x)
    if r.q <= 1 << 20:
        return r

    def close(a: float, b: float) -> bool:
        return abs(a - b) <= 4e-16 * max(1.0, abs(a), abs(b))
    for m in range(1, 65):
        k = round(x * m / math.pi)
        if k != 0 and close(k * math.pi / m, x):
            return sp.Rational(k, m) * sp.pi
    for n in (2, 3, 5, 6, 7):
        for m in range(1, 17):
            k = round(x * m / math.sqrt(n))
            if k != 0 and abs(k) <= 64 and close(k * math.sqrt(n) / m, x):
                return sp.Rational(k, m) * sp.sqrt(n)
    return r


class Sym:
    __array_priority__ = 1000.0
    __slots__ = ('e',)

    def __init__(self, e: Any) -> None:
        if isinstance(e, Sym):
            e = e.e
        elif isinstance(e, (float, np.floating)):
            e = exact_of_float(float(e))
        elif isinstance(e, (complex, np.complexfloating)):
            e = exact_of_float(float(e.real)) + sp.I * exact_of_float(float(e.imag))
        elif isinstance(e, (int, np.integer)):
            e = sp.Integer(int(e))
        self.e = e

    @staticmethod
    def _c(o: Any) -> Any:
        return Sym(o).e

    def __add__(self, o: Any) -> Any:
        if isinstance(o, np.ndarray):
            return NotImplemented
        return Sym(self.e + Sym._c(o))
    __radd__ = __add__

    def __sub__(self, o: Any) -> Any:
        if isinstance(o, np.ndarray):
            return NotImplemented
        return Sym(self.e - Sym._c(o))

    def __rsub__(self, o: Any) -> Any:
        return Sym(Sym._c(o) - self.e)

    def __mul__(self, o: Any) -> Any:
        if isinstance(o, np.ndarray):
            return NotImplemented
        return Sym(self.e * Sym._c(o))
    __rmul__ = __mul__

    def __truediv__(self, o: Any) -> Any:
        if isinstance(o, np.ndarray):
            return NotImplemented
        return Sym(self.e / Sym._c(o))

    def __rtruediv__(self, o: Any) -> Any:
        return Sym(Sym._c(o) / self.e)

    def __pow__(self, o: Any) -> Any:
        return Sym(self.e ** Sym._c(o))

    def __rpow__(self, o: Any) -> Any:
        return Sym(Sym._c(o) ** self.e)

    def __neg__(self) -> 'Sym':
        return Sym(-self.e)

    def __pos__(self) -> 'Sym':
        return self

    def cos(self) -> 'Sym':
        return Sym(sp.cos(self.e))

    def sin(self) -> 'Sym':
        return Sym(sp.sin(self.e))

    def tan(self) -> 'Sym':
        return Sym(sp.tan(self.e))

    def exp(self) -> 'Sym':
        return Sym(sp.exp(self.e))

    def sqrt(self) -> 'Sym':
        return Sym(sp.sqrt(self.e))

    def conjugate(self) -> 'Sym':
        return Sym(sp.conjugate(self.e))
    conj = conjugate

    @property
    def real(self) -> 'Sym':
        return Sym(sp.re(self.e))

    @property
    def imag(self) -> 'Sym':
        return Sym(sp.im(self.e))

    def __eq__(self, o: Any) -> bool:  # structural
        try:
            return bool(sp.simplify(self.e - Sym._c(o)) == 0)
        except Exception:
            return False

    def __hash__(self) -> int:
        return hash(self.e)

    def __float__(self) -> float:
        if self.e.free_symbols:
            raise TypeError('symbolic value has no float')
        return float(self.e)

    def __complex__(self) -> complex:
        if self.e.free_symbols:
            raise TypeError('symbolic value has no complex')
        return complex(self.e)

    def __repr__(self) -> str:
        return 'Sym(%s)' % (self.e,)


numbers.Real.register(Sym)


def symbols(n: int, prefix: str = 't') -> list[Sym]:
    return [Sym(sp.Symbol('%s%d' % (prefix, i), real=True)) for i in range(n)]


def to_matrix(a: Any) -> sp.Matrix:
    """numpy (object or numeric) 2-d array / UnitaryMatrix -> sympy Matrix of exact entries."""
    if hasattr(a, '_utry'):
        a = a._utry
    a = np.asarray(a, dtype=object) if not isinstance(a, np.ndarray) else a
    assert a.ndim == 2, a.shape
    return sp.Matrix(a.shape[0], a.shape[1], lambda i, j: Sym(a[i, j]).e)


def has_sym(a: Any) -> bool:
    if isinstance(a, Sym):
        return True
    if isinstance(a, np.ndarray):
        return a.dtype == object
    if isinstance(a, (list, tuple)):
        return any(has_sym(x) for x in a)
    return False


class SymArray(np.ndarray):
    """Object array that ignores casts to complex/float (entries are exact expressions)."""

    def astype(self, dtype: Any, *a: Any, **k: Any) -> Any:
        if self.dtype == object and np.dtype(dtype).kind in 'cf':
            return self
        return super().astype(dtype, *a, **k)


def _sa(x: Any) -> Any:
    if isinstance(x, np.ndarray) and x.dtype == object and not isinstance(x, SymArray):
        return x.view(SymArray)
    return x


class _NpProxy:
    """Forwards to numpy, except that complex128 casts of Sym-carrying data keep dtype=object."""

    def __getattr__(self, name: str) -> Any:
        return getattr(np, name)

    @staticmethod
    def _dt(kw: dict, a: tuple) -> tuple[dict, tuple]:
        return kw, a

    def array(self, obj: Any, *a: Any, **kw: Any) -> Any:
        if has_sym(obj):
            kw.pop('dtype', None)
            return _sa(np.array(obj, dtype=object))
        return np.array(obj, *a, **kw)

    def asarray(self, obj: Any, *a: Any, **kw: Any) -> Any:
        if has_sym(obj):
            kw.pop('dtype', None)
            return _sa(np.array(obj, dtype=object))
        return np.asarray(obj, *a, **kw)

    def zeros(self, shape: Any, *a: Any, **kw: Any) -> Any:
        if _STATE['active']:
            z = np.empty(shape, dtype=object)
            z.fill(0)            # plain ints: numeric code paths keep working, Sym can still be assigned
            return _sa(z)
        return np.zeros(shape, *a, **kw)

    def identity(self, n: int, *a: Any, **kw: Any) -> Any:
        if _STATE['active']:
            return self.eye(n)
        return np.identity(n, *a, **kw)

    def eye(self, n: int, *a: Any, **kw: Any) -> Any:
        if _STATE['active']:
            z = self.zeros((n, n))
            for i in range(n):
                z[i, i] = 1
            return z
        return np.eye(n, *a, **kw)

    def cos(self, x: Any) -> Any:
        return x.cos() if isinstance(x, Sym) else np.cos(x)

    def sin(self, x: Any) -> Any:
        return x.sin() if isinstance(x, Sym) else np.sin(x)

    def exp(self, x: Any) -> Any:
        return x.exp() if isinstance(x, Sym) else np.exp(x)

    def sqrt(self, x: Any) -> Any:
        return x.sqrt() if isinstance(x, Sym) else np.sqrt(x)

    def conj(self, x: Any) -> Any:
        if isinstance(x, Sym):
            return x.conjugate()
        if isinstance(x, np.ndarray) and x.dtype == object:
            return np.frompyfunc(lambda v: Sym(v).conjugate(), 1, 1)(x)
        return np.conj(x)

    def kron(self, a: Any, b: Any) -> Any:
        a2 = a._utry if hasattr(a, '_utry') else a
        b2 = b._utry if hasattr(b, '_utry') else b
        return _sa(np.kron(a2, b2))


NP = _NpProxy()


class _NpProxyLite(_NpProxy):
    """For library modules whose own numeric helpers (is_unitary, ...) must keep working: zeros/identity/eye stay numeric."""

    def zeros(self, shape: Any, *a: Any, **kw: Any) -> Any:
        return np.zeros(shape, *a, **kw)

    def identity(self, n: int, *a: Any, **kw: Any) -> Any:
        return np.identity(n, *a, **kw)

    def eye(self, n: int, *a: Any, **kw: Any) -> Any:
        return np.eye(n, *a, **kw)


NP_LITE = _NpProxyLite()
_STATE = {'active': False, 'qgl': {}}


def patch_np(*modules: Any) -> list:
    """Replace the module global `np` of the given (already imported) modules by the proxy.
    Returns the modules actually patched (pass that list to unpatch_np: nested use is safe)."""
    done = []
    for m in modules:
        if getattr(m, 'np', None) is np:
            lite = m.__name__.startswith('bqskit.qis.') or m.__name__ == 'bqskit.ir.circuit'
            m.np = NP_LITE if lite else NP
            done.append(m)
    return done


def unpatch_np(*modules: Any) -> None:
    for m in modules:
        if getattr(m, 'np', None) is NP or getattr(m, 'np', None) is NP_LITE:
            m.np = np


class sym_mode:
    """Context: UnitaryMatrix.__init__ keeps object arrays (no numeric unitarity test)."""

    def __enter__(self) -> 'sym_mode':
        from bqskit.qis.unitary.unitarymatrix import UnitaryMatrix
        self.UM = UnitaryMatrix
        self.orig = UnitaryMatrix.__init__
        orig = self.orig

        def init(um: Any, input: Any, radixes: Any = [], check_arguments: bool = True) -> None:
            if isinstance(input, UnitaryMatrix) or not has_sym(input):
                if isinstance(input, np.ndarray) and input.dtype == object:
                    pass
                else:
                    return orig(um, input, radixes, check_arguments)
            arr = np.array(input, dtype=object)
            um._utry = arr
            dim = arr.shape[0]
            um._dim = dim
            if radixes:
                um._radixes = tuple(radixes)
            elif dim & (dim - 1) == 0:
                um._radixes = tuple([2] * (dim.bit_length() - 1))
            else:
                r, d = [], dim
                while d % 3 == 0 and d > 1:
                    r.append(3)
                    d //= 3
                if d != 1:
                    raise RuntimeError('cannot infer radixes for dim %d' % dim)
                um._radixes = tuple(r)
        UnitaryMatrix.__init__ = init      # type: ignore
        self.prev_active = _STATE['active']
        _STATE['active'] = True
        return self

    def __exit__(self, *a: Any) -> None:
        self.UM.__init__ = self.orig       # type: ignore
        _STATE['active'] = self.prev_active


def record_qgl() -> dict:
    """Wrap openqudit's UnitaryExpression so the QGL text of every expression built by /repo
    is recorded (id(expr) -> text). Must be called BEFORE bqskit.ir.gates is imported."""
    import openqudit.expressions as oe
    if getattr(oe, '_vf_wrapped', False):
        return _STATE['qgl']
    real = oe.UnitaryExpression
    table: dict = _STATE['qgl']

    class Recorder:
        def __call__(self, *a: Any, **k: Any) -> Any:
            obj = real(*a, **k)
            if a and isinstance(a[0], str):
                table[id(obj)] = a[0]
                _KEEP.append(obj)
            return obj

        def __getattr__(self, n: str) -> Any:
            return getattr(real, n)

        def __instancecheck__(self, inst: Any) -> bool:
            return isinstance(inst, real)
    oe.UnitaryExpression = Recorder()     # type: ignore
    oe._vf_wrapped = True                 # type: ignore
    return table


_KEEP: list = []


def qgl_text_of(expr: Any) -> str | None:
    return _STATE['qgl'].get(id(expr))
