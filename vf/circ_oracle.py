"""Tagged gates, public-API snapshots and the C05 representation invariant.

Everything here reads the circuit through the *public read API only* (as C05 demands):
__getitem__, is_point_idle, next, prev, front, rear, first_on, last_on, gate_counts,
coupling_graph, num_cycles, num_operations, operations_with_cycles, iteration.
"""
from __future__ import annotations

from typing import Any

from bqskit.ir.circuit import Circuit
from bqskit.ir.gate import Gate
from bqskit.ir.gates.circuitgate import CircuitGate
from bqskit.ir.operation import Operation


class TG(Gate):
    """Harness-tagged gate: identity = (tag, arity, radixes, nparams). No numerics."""

    def __init__(self, tag: int, n: int = 1, radixes: tuple = (), nparams: int = 0) -> None:
        self.tag = tag
        self._num_qudits = n
        self._radixes = tuple(radixes) if radixes else tuple([2] * n)
        self._num_params = nparams
        self._name = 'T%d' % tag
        self._qasm_name = 't%d' % abs(tag)

    def get_unitary(self, params: Any = []) -> Any:  # pragma: no cover
        raise NotImplementedError('tagged gates have no numerics')

    def get_inverse(self) -> 'TG':
        return TG(-self.tag, self._num_qudits, self._radixes, self._num_params)

    def get_inverse_params(self, params: Any = []) -> Any:
        return [-p for p in params]

    def __eq__(self, o: object) -> bool:
        return (
            isinstance(o, TG) and o.tag == self.tag and o._num_qudits == self._num_qudits
            and o._radixes == self._radixes and o._num_params == self._num_params
        )

    def __hash__(self) -> int:
        return hash(('TG', self.tag, self._num_qudits))

    def __repr__(self) -> str:
        return 'T%d' % self.tag


class Viol(Exception):
    """Raised by oracle code when an invariant is broken (message = fingerprint: detail)."""

    def __init__(self, fp: str, detail: str = '') -> None:
        super().__init__(fp + (': ' + detail if detail else ''))
        self.fp = fp


def op_key(op: Operation) -> Any:
    g = op.gate
    if isinstance(g, TG):
        return ('T', g.tag, tuple(op.params))
    if isinstance(g, CircuitGate):
        return ('B', flat_of(g._circuit, op.params))
    return ('G', g.name, tuple(op.params))


def grid(circ: Circuit) -> list[list[Operation | None]]:
    """The grid view through circ[c, q] / is_point_idle."""
    out = []
    for c in range(circ.num_cycles):
        row: list[Operation | None] = []
        for q in range(circ.num_qudits):
            if circ.is_point_idle((c, q)):
                row.append(None)
            else:
                row.append(circ[c, q])
        out.append(row)
    return out


def top_seqs(circ: Circuit) -> list[list[tuple[int, Operation, int]]]:
    """Per qudit: [(cycle, op, index of qudit in op.location)] in cycle order."""
    g = grid(circ)
    out = []
    for q in range(circ.num_qudits):
        seq = []
        for c, row in enumerate(g):
            op = row[q]
            if op is not None:
                seq.append((c, op, list(op.location).index(q) if q in op.location else -1))
        out.append(seq)
    return out


def _flat_op(op: Operation, j: int, params: Any = None) -> list:
    """Entries that operation `op` contributes to the timeline of its j-th qudit."""
    g = op.gate
    if isinstance(g, CircuitGate):
        inner = g._circuit
        res = []
        # parameters of nested blocks: the op's params, consumed in iteration order
        pmap = _param_map(inner, list(op.params) if params is None else list(params))
        for (c, iop, jj) in top_seqs(inner)[j]:
            res.extend(_flat_op(iop, jj, pmap.get((c, iop.location[0]))))
        return res
    ps = tuple(op.params) if params is None else tuple(params)
    if isinstance(g, TG):
        return [(g.tag, j, ps)]
    return [(g.name, j, ps)]


def _param_map(circ: Circuit, params: list) -> dict:
    """(cycle, first qudit) -> parameter slice, consuming `params` in iteration order."""
    out = {}
    i = 0
    for c, op in circ.operations_with_cycles():
        out[(c, op.location[0])] = params[i:i + op.num_params]
        i += op.num_params
    return out


def flat_of(circ: Circuit, params: Any = None) -> tuple:
    """Per-qudit timelines with every CircuitGate expanded: tuple of tuples of (tag, idx, params)."""
    pmap = None if params is None else _param_map(circ, list(params))
    out = []
    for q, seq in enumerate(top_seqs(circ)):
        line: list = []
        for (c, op, j) in seq:
            line.extend(_flat_op(op, j, None if pmap is None else pmap.get((c, op.location[0]))))
        out.append(tuple(line))
    return tuple(out)


def flat_iter(circ: Circuit) -> tuple:
    """Per-qudit timelines in ITERATION order (the order get_unitary multiplies in), CircuitGates
    expanded. Equal to flat_of() exactly when iteration is complete and compatible with the grid."""
    lines: list[list] = [[] for _ in range(circ.num_qudits)]
    for c, op in circ.operations_with_cycles():
        for j, q in enumerate(op.location):
            lines[q].extend(_flat_op(op, j))
    return tuple(tuple(x) for x in lines)


def check_invariant(circ: Circuit, where: str = '') -> None:
    """C05 representation invariant through the public read API. Raises Viol."""
    W = circ.num_qudits
    g = grid(circ)
    if len(circ.radixes) != W:
        raise Viol('radixes-length', where)
    # no empty cycle; each op occupies exactly its location in exactly one cycle
    ops: list[tuple[int, Operation]] = []
    for c, row in enumerate(g):
        if all(x is None for x in row):
            raise Viol('empty-cycle', '%s cycle %d' % (where, c))
        seen: list[int] = []
        for q in range(W):
            op = row[q]
            if op is None or q in seen:
                continue
            loc = list(op.location)
            if q not in loc:
                raise Viol('op-outside-location', '%s (%d,%d) %r' % (where, c, q, op))
            for q2 in loc:
                if q2 >= W or row[q2] is not op:
                    raise Viol('op-not-on-whole-location', '%s (%d,%d) %r' % (where, c, q, op))
            for q2 in range(W):
                if row[q2] is op and q2 not in loc:
                    raise Viol('op-outside-location', '%s (%d,%d) %r' % (where, c, q2, op))
            seen.extend(loc)
            ops.append((c, op))
    if circ.num_cycles != len(g):
        raise Viol('num_cycles', where)
    # counters
    if circ.num_operations != len(ops):
        raise Viol('num_operations', '%s %d != %d' % (where, circ.num_operations, len(ops)))
    if len(circ) != len(ops):
        raise Viol('len', where)
    counts: dict[Gate, int] = {}
    for _, op in ops:
        counts[op.gate] = counts.get(op.gate, 0) + 1
    gc = circ.gate_counts
    if gc != counts:
        raise Viol('gate_counts', '%s %r != %r' % (where, gc, counts))
    for gate, n in counts.items():
        if circ.count(gate) != n:
            raise Viol('count', where)
    if circ.num_params != sum(op.num_params for _, op in ops):
        raise Viol('num_params', where)
    edges = set()
    for _, op in ops:
        loc = list(op.location)
        for i in range(len(loc)):
            for j in range(i + 1, len(loc)):
                edges.add((min(loc[i], loc[j]), max(loc[i], loc[j])))
    cg = circ.coupling_graph
    got = set((min(a, b), max(a, b)) for (a, b) in cg)
    if got != edges or cg.num_qudits != W:
        raise Viol('coupling_graph', '%s %r != %r' % (where, sorted(got), sorted(edges)))
    act = sorted({q for _, op in ops for q in op.location})
    if list(circ.active_qudits) != act:
        raise Viol('active_qudits', '%s %r != %r' % (where, circ.active_qudits, act))
    # dependency view
    seqs = top_seqs(circ)
    for q in range(W):
        pts = [(c, op.location[0]) for (c, op, _) in seqs[q]]
        f, l = circ.first_on(q), circ.last_on(q)
        if not pts:
            if f is not None or l is not None:
                raise Viol('first/last_on-idle', '%s q=%d' % (where, q))
            if not circ.is_qudit_idle(q):
                raise Viol('is_qudit_idle', where)
            continue
        if f is None or tuple(f) != pts[0]:
            raise Viol('first_on', '%s q=%d %r != %r' % (where, q, f, pts[0]))
        if l is None or tuple(l) != pts[-1]:
            raise Viol('last_on', '%s q=%d %r != %r' % (where, q, l, pts[-1]))
    nxt: dict = {}
    prv: dict = {}
    for q in range(W):
        pts = [(c, op.location[0]) for (c, op, _) in seqs[q]]
        for a, b in zip(pts, pts[1:]):
            nxt.setdefault(a, set()).add(b)
            prv.setdefault(b, set()).add(a)
    allpts = [(c, op.location[0]) for c, op in ops]
    for p in allpts:
        n = {tuple(x) for x in circ.next(p)}
        if n != nxt.get(p, set()):
            raise Viol('next', '%s %r: %r != %r' % (where, p, n, nxt.get(p, set())))
        pv = {tuple(x) for x in circ.prev(p)}
        if pv != prv.get(p, set()):
            raise Viol('prev', '%s %r: %r != %r' % (where, p, pv, prv.get(p, set())))
    fr = {tuple(x) for x in circ.front}
    if fr != {p for p in allpts if not prv.get(p)}:
        raise Viol('front', '%s %r' % (where, fr))
    rr = {tuple(x) for x in circ.rear}
    if rr != {p for p in allpts if not nxt.get(p)}:
        raise Viol('rear', '%s %r' % (where, rr))
    # depth = critical path length
    d = [0] * W
    for c, op in sorted(ops, key=lambda x: x[0]):
        nd = max(d[q] for q in op.location) + 1
        for q in op.location:
            d[q] = nd
    if circ.depth != (max(d) if d else 0):
        raise Viol('depth', '%s %d != %d' % (where, circ.depth, max(d)))
    # iteration: every operation once, compatible with every qudit's timeline
    it = list(circ.operations_with_cycles())
    if sorted((c, tuple(op.location)) for c, op in it) != sorted((c, tuple(op.location)) for c, op in ops):
        raise Viol('iteration-set', where)
    pos = [0] * W
    for c, op in it:
        for q in op.location:
            if pos[q] >= len(seqs[q]) or seqs[q][pos[q]][0] != c or seqs[q][pos[q]][1] is not op:
                raise Viol('iteration-order', '%s at %r' % (where, (c, op)))
            pos[q] += 1
    if [op for op in circ] != [op for _, op in it]:
        raise Viol('iter-vs-operations_with_cycles', where)
    rv = list(reversed(circ))
    if len(rv) != len(it):
        raise Viol('reversed-iteration', where)


DOCUMENTED = (IndexError, ValueError, TypeError)
