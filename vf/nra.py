"""E2 decision backend: matrix identities over ALL real parameters, decided in QF_NRA.

Pipeline for a list of sympy expressions (the entries of a difference matrix) in real
symbols t_k:
  1. exp(i x) -> cos x + i sin x; every trig argument must be a rational-linear combination of
     the t_k plus a rational multiple of pi;
  2. per symbol a base angle A_k = t_k * u_k (u_k = rational gcd of the coefficients that occur),
     arguments become integer combinations, sympy.expand_trig turns them into polynomials in
     c_k = cos A_k, s_k = sin A_k;
  3. algebraic constants sqrt(n) -> atom r_n with r_n^2 = n, r_n > 0; doubles at face value;
  4. real and imaginary parts separated (c_k, s_k, r_n real);
  5. z3:  AND(c_k^2 + s_k^2 = 1) AND constants AND OR_entries(|Re| > eps OR |Im| > eps).
     unsat  => every entry is within eps of zero for ALL real parameter vectors.
     sat    => model (c_k, s_k) -> angles via atan2 -> concrete parameter vector.
"""
from __future__ import annotations

import math
import time
from fractions import Fraction
from typing import Any

import sympy as sp  # noqa
import z3

EPS = Fraction(1, 10**9)


class NotEncodable(Exception):
    pass


def _lin_coeffs(arg: sp.Expr, syms: list[sp.Symbol]) -> tuple[dict, sp.Expr]:
    arg = sp.expand(arg)
    co = {}
    rest = arg
    for s in syms:
        c = arg.coeff(s, 1)
        if c != 0:
            if c.free_symbols:
                raise NotEncodable('non-linear trig argument %s' % arg)
            co[s] = c
            rest = rest - c * s
    rest = sp.expand(rest)
    if rest.free_symbols:
        raise NotEncodable('trig argument with foreign symbols %s' % arg)
    return co, rest


def normalise(exprs: list[sp.Expr], syms: list[sp.Symbol]) -> tuple[list[tuple[sp.Expr, sp.Expr]], dict]:
    """-> [(re_poly, im_poly)], info{'c':[..], 's':[..], 'units':{sym:u}, 'consts':{atom:n}}"""
    exprs = [sp.sympify(e).rewrite(sp.cos) for e in exprs]      # exp(I x) -> cos + I sin
    exprs = [e.replace(sp.tan, lambda a: sp.sin(a) / sp.cos(a)) for e in exprs]
    # collect units
    units: dict = {}
    for e in exprs:
        for f in e.atoms(sp.cos, sp.sin):
            co, rest = _lin_coeffs(f.args[0], syms)
            for s, c in co.items():
                # c may contain pi (PhasedXZ: pi*t0/2): keep symbolic coefficient classes
                units.setdefault(s, []).append(c)
    base = {}
    A = {}
    for s in syms:
        cs = units.get(s, [])
        if not cs:
            continue
        # all coefficients must be rational multiples of one another
        ref = cs[0]
        ratios = []
        for c in cs:
            r = sp.nsimplify(c / ref)
            if not r.is_Rational:
                raise NotEncodable('incommensurable coefficients for %s: %s vs %s' % (s, c, ref))
            ratios.append(sp.Rational(r))
        g = ratios[0]
        for r in ratios[1:]:
            g = sp.Rational(math.gcd(g.p * r.q, r.p * g.q), g.q * r.q)
        u = ref * abs(g)              # base angle A = u * t  (u may include pi)
        base[s] = u
        A[s] = sp.Symbol('A_' + s.name, real=True)
    sub = {s: A[s] / base[s] for s in A}
    cs_atoms = {s: (sp.Symbol('c_' + s.name, real=True), sp.Symbol('s_' + s.name, real=True)) for s in A}
    out = []
    consts: dict = {}

    def const_atom(n: sp.Expr) -> sp.Symbol:
        key = sp.sympify(n)
        if key not in consts:
            consts[key] = sp.Symbol('r_%d' % len(consts), real=True, positive=True)
        return consts[key]

    for e in exprs:
        e2 = e.subs(sub)
        e2 = sp.expand_trig(sp.expand(e2))
        e2 = sp.expand(e2)
        rep = {}
        for f in e2.atoms(sp.cos, sp.sin):
            a = f.args[0]
            if a in A.values():
                s = [k for k, v in A.items() if v == a][0]
                rep[f] = cs_atoms[s][0] if isinstance(f, sp.cos) else cs_atoms[s][1]
            elif not a.free_symbols:
                if sp.nsimplify(a / sp.pi).is_Rational:
                    rep[f] = sp.nsimplify(f)      # multiples of pi: exact algebraic value
                else:
                    # other constants (e.g. frozen parameter values): the numeric code evaluates
                    # them in double precision; taken here at 25 digits (difference << eps)
                    rep[f] = sp.Rational(str(f.evalf(25)))
            else:
                raise NotEncodable('unexpanded trig term %s' % f)
        e2 = sp.expand(e2.subs(rep))
        if e2.atoms(sp.exp, sp.log, sp.tan) - set():
            for f in e2.atoms(sp.exp):
                if f.free_symbols:
                    raise NotEncodable('real exponential of a parameter: %s' % f)
        # algebraic constants: sqrt(n), n rational -> atoms
        for _round in range(6):      # nested radicals: innermost first
            rep2 = {}
            for f in e2.atoms(sp.Pow):
                b, ex = f.as_base_exp()
                if ex.is_Rational and not ex.is_Integer:
                    if any(isinstance(x, sp.Pow) and not x.as_base_exp()[1].is_Integer for x in b.atoms(sp.Pow)):
                        continue            # has an inner radical: next round
                    foreign = [x for x in b.free_symbols if x not in consts.values()]
                    if ex.q == 2 and not foreign:
                        rep2[f] = const_atom(sp.expand(b)) ** ex.p
                    else:
                        raise NotEncodable('algebraic constant %s' % f)
            if not rep2:
                break
            e2 = sp.expand(e2.subs(rep2))
        if e2.has(sp.pi) or e2.has(sp.E):
            raise NotEncodable('transcendental constant left in %s' % e2)
        re, im = e2.as_real_imag()
        re, im = sp.expand(re), sp.expand(im)
        # sound rewriting under the constraints asserted in the query: s_k^2 -> 1 - c_k^2,
        # r_n^2 -> n  (normal form modulo the ideal; identities become the zero polynomial)
        re, im = _reduce(re, cs_atoms, consts), _reduce(im, cs_atoms, consts)
        for part in (re, im):
            bad = part.atoms(sp.Function)
            if bad:
                raise NotEncodable('function left after normalisation: %s' % bad)
        out.append((re, im))
    info = {'atoms': cs_atoms, 'base': base, 'consts': consts}
    return out, info


def _reduce(poly: sp.Expr, cs_atoms: dict, consts: dict) -> sp.Expr:
    if poly == 0:
        return poly
    gens = []
    G = []
    for s, (c, sn) in cs_atoms.items():
        gens += [sn, c]
        G.append(sn**2 + c**2 - 1)
    for n, atom in consts.items():
        if not sp.sympify(n).is_Rational:
            continue          # nested radical: left to the solver
        gens.append(atom)
        G.append(atom**2 - sp.Rational(n))
    if not G:
        return poly
    extra = [x for x in poly.free_symbols if x not in gens]
    try:
        _, rem = sp.reduced(poly, G, *(gens + extra), order='lex')
    except Exception:
        return poly
    return sp.expand(rem)


def _to_z3(poly: sp.Expr, zmap: dict) -> Any:
    poly = sp.expand(poly)
    if poly == 0:
        return z3.RealVal(0)
    total = None
    for term in poly.as_ordered_terms():
        coeff, mon = term.as_coeff_Mul()
        if not coeff.is_Rational:
            coeff = sp.nsimplify(coeff, rational=True)
        t = z3.RealVal(str(sp.Rational(coeff)))
        for f, p in mon.as_powers_dict().items():
            if f == 1:
                continue
            if f not in zmap:
                raise NotEncodable('unknown atom %s' % f)
            for _ in range(int(p)):
                t = t * zmap[f]
        total = t if total is None else total + t
    return total


def decide_zero(exprs: list[sp.Expr], syms: list[sp.Symbol], timeout_s: float = 60.0,
                eps: Fraction = EPS) -> dict:
    """Are all exprs == 0 (within eps) for all real values of syms?"""
    t0 = time.perf_counter()
    try:
        polys, info = normalise(exprs, syms)
    except NotEncodable as e:
        return {'status': 'inconclusive', 'detail': 'not encodable: %s' % e, 'solver_s': 0.0, 'queries': 0}
    # Sound pruning of numerically negligible terms (doubles read at face value differ from their
    # closed forms by ~1e-16): p = p_big + p_small, |p_small| <= delta on the whole domain because
    # |c_k|, |s_k| <= 1 and r_n <= bound(n); then |p| > eps implies |p_big| > eps - delta.
    cval: dict = {}
    for n, atom in info['consts'].items():       # insertion order = innermost first
        cval[atom] = math.sqrt(float(sp.N(sp.sympify(n).subs(cval))))
    cbound = {atom: Fraction(int(math.ceil(v)) + 1) for atom, v in cval.items()}
    delta_max = Fraction(0)

    def split(poly: sp.Expr) -> sp.Expr:
        nonlocal delta_max
        if poly == 0:
            return poly
        big = 0
        delta = Fraction(0)
        for term in sp.expand(poly).as_ordered_terms():
            coeff, mon = term.as_coeff_Mul()
            cf = Fraction(int(sp.Rational(coeff).p), int(sp.Rational(coeff).q))
            if abs(cf) < Fraction(1, 10**12):
                b = abs(cf)
                for f, pw in mon.as_powers_dict().items():
                    if f in cbound:
                        b *= cbound[f] ** int(pw)
                delta += b
            else:
                big = big + term
        delta_max = max(delta_max, delta)
        return sp.expand(big)
    polys = [(split(re), split(im)) for re, im in polys]
    if delta_max >= eps / 2:
        return {'status': 'inconclusive', 'detail': 'negligible-term bound too large', 'solver_s': 0.0, 'queries': 0}
    eps = eps - delta_max
    # trivial case: everything normalised to the zero polynomial
    nz = [(i, re, im) for i, (re, im) in enumerate(polys) if re != 0 or im != 0]
    zmap: dict = {}
    cons = []
    for s, (c, sn) in info['atoms'].items():
        zc, zs = z3.Real(str(c)), z3.Real(str(sn))
        zmap[c], zmap[sn] = zc, zs
        cons.append(zc * zc + zs * zs == 1)
    for n, atom in info['consts'].items():
        zmap[atom] = z3.Real(str(atom))
    for n, atom in info['consts'].items():
        zr = zmap[atom]
        cons.append(zr * zr == _to_z3(sp.sympify(n), zmap))
        cons.append(zr > 0)
    e = z3.RealVal(str(eps))
    solver = z3.Solver()
    solver.set('timeout', int(timeout_s * 1000))
    solver.add(*cons)
    # vacuity twin: the constraint set alone must be satisfiable
    tw = solver.check()
    queries = 1
    if str(tw) != 'sat':
        return {'status': 'error', 'detail': 'constraint set not satisfiable (%s)' % tw,
                'solver_s': round(time.perf_counter() - t0, 3), 'queries': queries}
    if not nz:
        return {'status': 'discharged', 'detail': 'all entries normalise to the zero polynomial',
                'solver_s': round(time.perf_counter() - t0, 3), 'queries': queries, 'entries': len(polys)}
    try:
        disj = []
        for i, re, im in nz:
            zr, zi = _to_z3(re, zmap), _to_z3(im, zmap)
            disj += [zr > e, zr < -e, zi > e, zi < -e]
    except NotEncodable as ex:
        return {'status': 'inconclusive', 'detail': 'not encodable: %s' % ex, 'solver_s': 0.0, 'queries': queries}
    solver.add(z3.Or(*disj))
    r = solver.check()
    queries += 1
    st = round(time.perf_counter() - t0, 3)
    if str(r) == 'unsat':
        return {'status': 'discharged', 'solver_s': st, 'queries': queries, 'entries': len(polys),
                'nonzero_polys': len(nz)}
    if str(r) == 'sat':
        m = solver.model()
        vals = {}
        for s, (c, sn) in info['atoms'].items():
            cv = m.eval(zmap[c], model_completion=True)
            sv = m.eval(zmap[sn], model_completion=True)
            cf, sf = _z3_float(cv), _z3_float(sv)
            ang = math.atan2(sf, cf)                      # base angle A = base * t
            b = complex(sp.N(info['base'][s])).real
            vals[s.name] = ang / b
        return {'status': 'refuted', 'solver_s': st, 'queries': queries, 'cex': {'params': vals}}
    return {'status': 'inconclusive', 'detail': 'solver returned %s (%s)' % (r, solver.reason_unknown()),
            'solver_s': st, 'queries': queries}


def _z3_float(v: Any) -> float:
    if z3.is_rational_value(v):
        return float(Fraction(v.numerator_as_long(), v.denominator_as_long()))
    if z3.is_algebraic_value(v):
        return float(v.approx(20).as_fraction())
    return float(str(v))


def matrix_entries(m: sp.Matrix) -> list[sp.Expr]:
    return [m[i, j] for i in range(m.rows) for j in range(m.cols)]


def smtlib_of(exprs: list[sp.Expr], syms: list[sp.Symbol], eps: Fraction = EPS) -> str | None:
    """SMT-LIB2 text of the same query (for the cvc5 cross-check)."""
    try:
        polys, info = normalise(exprs, syms)
    except NotEncodable:
        return None
    zmap: dict = {}
    s = z3.Solver()
    for sy, (c, sn) in info['atoms'].items():
        zc, zs = z3.Real(str(c)), z3.Real(str(sn))
        zmap[c], zmap[sn] = zc, zs
        s.add(zc * zc + zs * zs == 1)
    for n, atom in info['consts'].items():
        zmap[atom] = z3.Real(str(atom))
    for n, atom in info['consts'].items():
        zr = zmap[atom]
        s.add(zr * zr == _to_z3(sp.sympify(n), zmap), zr > 0)
    e = z3.RealVal(str(eps))
    disj = []
    for re, im in polys:
        if re == 0 and im == 0:
            continue
        zr, zi = _to_z3(re, zmap), _to_z3(im, zmap)
        disj += [zr > e, zr < -e, zi > e, zi < -e]
    if not disj:
        return None
    s.add(z3.Or(*disj))
    return '(set-logic QF_NRA)\n' + s.to_smt2()
