"""Run-time helpers shared by harness functions (importable under CrossHair and plain)."""
from __future__ import annotations

import os
from typing import Any

# Shard parameters of the obligation being analysed (set by chworker / replay).
SHARD: dict[str, Any] = {}

# Counters maintained per obligation.
PATHS = 0        # harness invocations (= explored paths under CrossHair)
REACHED = 0      # invocations that reached the oracle (vacuity guard)
SAMPLES: list[Any] = []   # a few realised inputs (filled in concrete mode / on request)

# Human-readable trace, only filled in concrete (replay) mode.
CONCRETE = False
TRACE: list[str] = []
FINGERPRINT: list[str] = []


def begin() -> None:
    global PATHS
    PATHS += 1


def reach() -> None:
    """Marks that the path got to the point where the property is asserted."""
    global REACHED
    REACHED += 1


def log(*a: Any) -> None:
    if CONCRETE:
        TRACE.append(' '.join(str(x) for x in a))


def fingerprint(s: str) -> None:
    """A harness calls this right before returning False, to classify the failure."""
    if CONCRETE:
        FINGERPRINT.append(s)


def pick(x: int, lo: int, hi: int) -> int:
    """Case-split ladder: returns a *concrete* int equal to symbolic x in [lo, hi].

    Each rung is a solver query; exhaustion of the ladder is part of what CONFIRMED
    certifies. The caller must have constrained lo <= x <= hi in the precondition.
    """
    while lo < hi:
        mid = (lo + hi) // 2
        if x <= mid:
            hi = mid
        else:
            lo = mid + 1
    return lo


def P(x: int, lo: int, hi: int) -> 'int | None':
    """A concrete int in [lo, hi]: x clamped into the range and split by a solver-decided
    binary ladder (values below lo act as lo, above hi as hi, so no path is wasted and the
    replay - which clamps the same way - sees the same case). None only for an empty range."""
    if hi < lo:
        return None
    if CONCRETE:
        return max(lo, min(hi, int(x)))
    if _NATIVE:
        # inside native(): the tracing flag is resumed for the ladder only (the comparisons and
        # the branch on their result are methods of CrossHair's symbolic int / bool and need
        # the flag, not the opcode events)
        from crosshair.tracers import ResumedTracing
        with ResumedTracing():
            return pick(x, lo, hi)
    return pick(x, lo, hi)


def picks(xs: list, lo: int, hi: int) -> 'list[int] | None':
    """Concretises every entry (None if one lies outside [lo, hi])."""
    out = []
    for x in xs:
        if x < lo or x > hi:
            return None
        out.append(x if CONCRETE else pick(x, lo, hi))
    return out


def pickb(x: bool) -> bool:
    if x:
        return True
    return False


def B(x: bool) -> bool:
    """A concrete bool equal to the symbolic x (one solver-decided fork); usable inside native()."""
    if CONCRETE:
        return bool(x)
    if _NATIVE:
        from crosshair.tracers import ResumedTracing
        with ResumedTracing():
            return pickb(x)
    return pickb(x)


def tier() -> str:
    return os.environ.get('VERIF_TIER', 'quick')


KNOWN_HITS: dict[str, int] = {}


def fail(fp: str) -> bool:
    """Harness reports a failed oracle. Returns True (= keep exploring) when the
    fingerprint is a listed known finding, else records it and returns False."""
    if fp in SHARD.get('_known', []):
        KNOWN_HITS[fp] = KNOWN_HITS.get(fp, 0) + 1
        return True
    fingerprint(fp)
    return False


def nt(fn, *a, **k):
    """Runs fn(*a) natively (CrossHair tracing suspended). Only legal when every value that
    flows in is concrete - i.e. after the symbolic inputs were split by pick()/P().

    On Python 3.12 CrossHair traces through a global sys.monitoring hook that keeps firing
    (and returning early) inside NoTracing; the tool's event set is switched off for the
    duration of the all-concrete call so that it runs at interpreter speed."""
    if CONCRETE:
        return fn(*a, **k)
    import sys
    from crosshair.tracers import NoTracing, is_tracing
    if not is_tracing():
        return fn(*a, **k)
    with NoTracing():
        mon = getattr(sys, 'monitoring', None)
        tool = None
        if mon is not None:
            from crosshair import tracers
            tool = getattr(tracers, 'SYS_MONITORING_TOOL_ID', None)
        if tool is None or os.environ.get('VF_NT_FAST', '1') != '1':
            return fn(*a, **k)
        ev = mon.get_events(tool)
        if ev == 0:
            return fn(*a, **k)
        mon.set_events(tool, 0)
        try:
            return fn(*a, **k)
        finally:
            mon.set_events(tool, ev)


_NATIVE: list = []
_USE_NATIVE = os.environ.get('VF_NATIVE', '1') == '1'


def native(fn, *a, **k):
    """Like nt(), for harness code that still holds symbolic ints: everything runs natively
    EXCEPT the ladders inside P(), which switch tracing back on for their comparisons. The
    harness code run this way must do nothing with a symbolic value but hand it to P()
    (anything else raises CrossHair's 'operation on symbolic while not tracing')."""
    if CONCRETE or not _USE_NATIVE:
        return fn(*a, **k)
    import sys
    from crosshair.tracers import NoTracing, is_tracing
    from crosshair import tracers
    mon = getattr(sys, 'monitoring', None)
    tool = getattr(tracers, 'SYS_MONITORING_TOOL_ID', None)
    if not is_tracing() or mon is None or tool is None:
        return fn(*a, **k)
    with NoTracing():
        ev = mon.get_events(tool)
        if ev == 0:
            return fn(*a, **k)
        mon.set_events(tool, 0)
        _NATIVE.append((tool, ev))
        try:
            return fn(*a, **k)
        finally:
            _NATIVE.pop()
            mon.set_events(tool, ev)


def natively(fn):
    """Decorator form of native()."""
    import functools

    @functools.wraps(fn)
    def wrapper(*a, **k):
        return native(fn, *a, **k)
    return wrapper
