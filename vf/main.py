"""Driver: ./check <Cxx> [--tier quick|thorough] [--replay file] [--only substr] [--jobs N]

Loads harness/<Cxx>.py, runs every obligation of the tier in its own subprocess
(vf.chworker), replays each solver counterexample on the plain interpreter
(vf.replay), applies the known-findings policy, writes evidence/<Cxx>.json.

Exit codes: 0 held on everything explored; 1 reproduced violation (VIOLATION line);
2 environment failure; 3 harness error (non-reproducing counterexample, vacuity, crash).
"""
from __future__ import annotations

import argparse
import concurrent.futures as cf
import hashlib
import importlib
import json
import os
import subprocess
import sys
import time

ROOT = os.path.dirname(os.path.dirname(os.path.abspath(__file__)))
PY = os.path.join(ROOT, '.venv', 'bin', 'python')


def env() -> dict:
    e = dict(os.environ)
    e['PYTHONHASHSEED'] = '0'
    e['PYTHONPATH'] = ROOT + (':' + e['PYTHONPATH'] if e.get('PYTHONPATH') else '')
    e['OMP_NUM_THREADS'] = '1'
    e['OPENBLAS_NUM_THREADS'] = '1'
    e['MKL_NUM_THREADS'] = '1'
    e['PYTHONDONTWRITEBYTECODE'] = '1'
    return e


def run_worker(modname: str, ob: dict) -> dict:
    kind = ob.get('kind', 'ch')
    t = float(ob.get('timeout', 60))
    cmd = [PY, '-m', 'vf.chworker', modname, ob['func'], json.dumps(ob.get('shard', {})), str(t), kind]
    t0 = time.time()
    try:
        p = subprocess.run(cmd, cwd=ROOT, env=env(), capture_output=True, text=True, timeout=t * 1.5 + 60)
        out = p.stdout
        i = out.rfind('@@RESULT@@')
        if i < 0:
            return {'status': 'error', 'error': 'worker produced no result: ' + (p.stderr or out)[-800:],
                    'wall_s': round(time.time() - t0, 2)}
        return json.loads(out[i + len('@@RESULT@@'):])
    except subprocess.TimeoutExpired:
        return {'status': 'inconclusive', 'error': 'hard timeout', 'wall_s': round(time.time() - t0, 2)}


def run_replay(path: str) -> dict:
    p = subprocess.run([PY, '-m', 'vf.replay', path, '--json'], cwd=ROOT, env=env(),
                       capture_output=True, text=True, timeout=600)
    i = p.stdout.rfind('@@REPLAY@@')
    if i < 0:
        return {'reproduced': False, 'detail': 'replay crashed: ' + (p.stderr or p.stdout)[-800:],
                'fingerprint': 'replay-crash', 'trace': []}
    return json.loads(p.stdout[i + len('@@REPLAY@@'):])


def load_known(pid: str) -> list[dict]:
    path = os.path.join(ROOT, 'known_findings.json')
    if not os.path.exists(path):
        return []
    data = json.load(open(path))
    return [f for f in data.get('findings', []) if f.get('property') == pid]


def main() -> int:
    ap = argparse.ArgumentParser()
    ap.add_argument('prop')
    ap.add_argument('--tier', default=os.environ.get('VERIF_TIER', 'quick'))
    ap.add_argument('--replay')
    ap.add_argument('--only')
    ap.add_argument('--jobs', type=int, default=int(os.environ.get('VERIF_JOBS', os.cpu_count() or 4)))
    ap.add_argument('--no-evidence', action='store_true')
    ap.add_argument('--budget', type=float, default=float(os.environ.get('VERIF_BUDGET', '0') or 0),
                    help='wall-clock budget in seconds for the whole tier (0 = the declared per-obligation caps)')
    a = ap.parse_args()
    pid = a.prop
    if a.replay:
        p = subprocess.run([PY, '-m', 'vf.replay', a.replay], cwd=ROOT, env=env())
        return 0 if p.returncode in (0, 4) else p.returncode
    os.environ['VERIF_TIER'] = a.tier
    seed = int(os.environ.get('VERIF_SEED', '0') or 0)
    sys.path.insert(0, ROOT)
    modname = 'harness.' + pid
    t0 = time.time()
    try:
        mod = importlib.import_module(modname)
        obs = mod.obligations(a.tier)
    except Exception as e:
        import traceback
        traceback.print_exc()
        print('HARNESS-ERROR property=%s could not build obligations: %r' % (pid, e))
        return 3
    if a.only:
        obs = [o for o in obs if a.only in o['name']]
    known = [f for f in load_known(pid) if f.get('status') == 'known']
    known_fps = sorted({f['fingerprint'] for f in known})
    for o in obs:
        o.setdefault('shard', {})
        o['shard']['_known'] = known_fps
    # Wall-clock budget: the declared per-obligation caps are worst cases; with --budget the caps
    # are scaled so that pass 1 cannot use more than 60% of the budget, and whatever is left is
    # redistributed in pass 2 over the obligations that did not finish. An obligation that does
    # not finish is reported as inconclusive, never as held.
    # caps are wall-clock seconds; the quick tier's were tuned in CPU seconds on an idle machine: half as much again
    declared = [float(o.get('timeout', 60)) * (1.5 if a.tier == 'quick' else 1.0) for o in obs]
    factor = 1.0
    if a.budget > 0 and declared:
        factor = min(1.0, 0.6 * a.budget * a.jobs / max(sum(declared), 1.0))
    for o, d in zip(obs, declared):
        o['timeout'] = d if factor >= 1.0 else round(min(d, max(20.0, d * factor)), 1)
    results: list[dict | None] = [None] * len(obs)

    # scheduling hint only: wall time of each obligation in an earlier run (selftest/update_weights.py)
    try:
        weights = json.load(open(os.path.join(ROOT, 'vf', 'weights.json'))).get(pid, {}).get(a.tier, {})
    except Exception:
        weights = {}

    def run_pass(idx: list[int]) -> None:
        # longest first (expected duration where known, else the cap)
        order = sorted(idx, key=lambda i: -min(float(weights.get(obs[i]['name'], 1e9)), float(obs[i].get('timeout', 60))))
        with cf.ThreadPoolExecutor(max_workers=a.jobs) as ex:
            futs = {ex.submit(run_worker, modname, obs[i]): i for i in order}
            for f in cf.as_completed(futs):
                i = futs[f]
                results[i] = f.result()
                r = results[i]
                r['cap_s'] = obs[i]['timeout']
                print('[%s] %-52s %-12s paths=%s solver=%ss wall=%ss' % (
                    pid, obs[i]['name'][:52], r['status'], r.get('paths', r.get('queries', '-')),
                    r.get('solver_s', '-'), r.get('wall_s', '-')), flush=True)
                if r['status'] == 'error':
                    print('    error:', str(r.get('error'))[-600:], flush=True)

    run_pass(list(range(len(obs))))
    if factor < 1.0:
        left = [i for i, r in enumerate(results) if r and r['status'] == 'inconclusive'
                and float(obs[i]['timeout']) < declared[i]]
        remaining = a.budget - (time.time() - t0)
        if left and remaining > 120:
            share = remaining * 0.9 * min(a.jobs, len(left)) / len(left)
            redo = []
            for i in left:
                t = round(min(declared[i], share), 1)
                if t >= 1.5 * float(obs[i]['timeout']):
                    obs[i]['timeout'] = t
                    redo.append(i)
            if redo:
                print('[%s] pass 2: %d unfinished obligations re-run with caps up to %.0fs' % (pid, len(redo), share),
                      flush=True)
                run_pass(redo)

    violations, harness_errors, replays_run = [], [], 0
    os.makedirs(os.path.join(ROOT, 'replays', pid), exist_ok=True)
    for o, r in zip(obs, results):
        assert r is not None
        if r['status'] == 'error':
            harness_errors.append((o['name'], r.get('error')))
        if r['status'] != 'refuted':
            continue
        spec = {'property_id': pid, 'module': modname, 'function': o['func'], 'kind': o.get('kind', 'ch'),
                'shard': o['shard'], 'args': r.get('args', []), 'kwargs': r.get('kwargs', {}),
                'cex': r.get('cex', {}), 'obligation': o['name'],
                'solver_message': r.get('cex_message', '')}
        h = hashlib.sha1(json.dumps(spec, sort_keys=True, default=str).encode()).hexdigest()[:10]
        path = os.path.join(ROOT, 'replays', pid, '%s-%s.json' % (o['name'].replace('/', '_')[:60], h))
        json.dump(spec, open(path, 'w'), indent=1, default=str)
        rp = run_replay(path)
        replays_run += 1
        r['replay'] = {'path': path, 'reproduced': rp['reproduced'], 'fingerprint': rp.get('fingerprint')}
        if rp['reproduced']:
            violations.append((o['name'], path, rp))
        else:
            harness_errors.append((o['name'], 'counterexample did not reproduce on the plain interpreter: '
                                   + str(rp.get('detail'))[-400:] + ' replay=' + path))

    # Known findings: each listed finding carries a witness replay; it is re-run so the
    # KNOWN-FINDING line is printed only while the defect is still there.
    known_lines = []
    for f in known:
        w = f.get('witness')
        if w and os.path.exists(os.path.join(ROOT, w)):
            rp = run_replay(os.path.join(ROOT, w))
            replays_run += 1
            if rp['reproduced']:
                known_lines.append('KNOWN-FINDING: property=%s %s' % (pid, f.get('description', f['fingerprint'])))
    for line in known_lines:
        print(line)

    new_viol = []
    for name, path, rp in violations:
        if rp.get('fingerprint') in known_fps:
            print('KNOWN-FINDING: property=%s %s (obligation %s)' % (pid, rp.get('fingerprint'), name))
        else:
            new_viol.append((name, path, rp))
    for name, path, rp in new_viol:
        print('obligation %s: %s' % (name, str(rp.get('detail'))[-700:]))
        for line in rp.get('trace', [])[-40:]:
            print('    ', line)
        print('VIOLATION property=%s replay=%s' % (pid, path))
    for name, err in harness_errors:
        print('HARNESS-ERROR property=%s obligation=%s %s' % (pid, name, str(err)[-500:]))

    n = len(obs)
    discharged = sum(1 for r in results if r and r['status'] == 'discharged')
    inconcl = [o['name'] for o, r in zip(obs, results) if r and r['status'] == 'inconclusive']
    paths = sum(int(r.get('paths', 0) or 0) for r in results if r)
    queries = sum(int(r.get('solver_calls', r.get('queries', 0)) or 0) for r in results if r)
    solver_s = round(sum(float(r.get('solver_s', 0) or 0) for r in results if r), 2)
    reached = sum(int(r.get('reached', 0) or 0) for r in results if r)
    samples = []
    for o, r in list(zip(obs, results))[:400]:
        assert r is not None
        s = {'obligation': o['name'], 'function': modname + ':' + o['func'],
             'shard': {k: v for k, v in o['shard'].items() if k != '_known'},
             'status': r['status'], 'paths': r.get('paths', r.get('queries')), 'solver_s': r.get('solver_s'),
             'wall_s': r.get('wall_s')}
        for k in ('cex', 'args', 'detail', 'replay', 'queries', 'sub', 'cap_s'):
            if k in r:
                s[k] = r[k]
        samples.append(s)
    wall = round(time.time() - t0, 2)
    ev = {
        'property_id': pid, 'tier': a.tier if a.tier in ('quick', 'thorough') else 'quick', 'seed': seed,
        'level': getattr(mod, 'LEVEL', 'model_checking'),
        'coverage': {
            'states': max(paths, 1), 'transitions': max(queries, 1),
            'traces_validated_against_impl': replays_run,
            'obligations': n, 'discharged': discharged, 'inconclusive': inconcl,
            'evaluations': paths, 'distinct_nontrivial': reached,
            'rule': getattr(mod, 'RULE', 'one case = one path of the symbolic execution tree of a harness function '
                            '(a distinct solver-feasible branch combination of the real code); non-trivial = the '
                            'path reached the oracle (precondition satisfied, code under test executed)'),
            'samples': samples,
            'exhaustive': (discharged == n and n > 0),
            'solver_seconds': solver_s, 'solver_queries': queries,
            'functions_encoded': getattr(mod, 'ENCODED', []),
            'bounds': getattr(mod, 'BOUNDS', {}).get(a.tier, getattr(mod, 'BOUNDS', {})),
            'outside_bounds': getattr(mod, 'OUTSIDE', ''),
            'checker_cmd': './check %s --tier %s%s' % (pid, a.tier, (' --budget %g' % a.budget) if a.budget else ''),
            'budget_s': a.budget, 'cap_scale_pass1': round(factor, 4),
            'trusted_base': ['CrossHair 0.0.110 symbolic executor (short-circuiting disabled)', 'z3 5.1.0',
                             'CPython 3.12 semantics of the traced code', 'harness oracle code in harness/%s.py' % pid],
            'known_findings_listed': known_fps,
            'harness_errors': [list(x) for x in harness_errors][:20],
        },
        'assumptions': getattr(mod, 'ASSUMPTIONS', []),
        'wall_s': wall,
        'violations': len(new_viol),
    }
    if not a.no_evidence and not a.only:
        os.makedirs(os.path.join(ROOT, 'evidence'), exist_ok=True)
        json.dump(ev, open(os.path.join(ROOT, 'evidence', pid + '.json'), 'w'), indent=1, default=str)
        if a.tier == 'thorough':
            # the per-property evidence file is rewritten by every run; a copy of the last
            # thorough run is kept next to it
            os.makedirs(os.path.join(ROOT, 'evidence', 'thorough'), exist_ok=True)
            json.dump(ev, open(os.path.join(ROOT, 'evidence', 'thorough', pid + '.json'), 'w'), indent=1,
                      default=str)
    print('[%s] tier=%s obligations=%d discharged=%d inconclusive=%d refuted=%d errors=%d paths=%d '
          'solver_queries=%d solver_s=%s wall=%ss' % (pid, a.tier, n, discharged, len(inconcl), len(violations),
                                                      len(harness_errors), paths, queries, solver_s, wall))
    if new_viol:
        return 1
    if harness_errors:
        return 3
    return 0


if __name__ == '__main__':
    sys.exit(main())
