"""Verification framework for BQSKit: solver-based checking of the real code.

Engines (see DESIGN.md section 2):
  vf.chworker  - E1: CrossHair (z3) symbolic execution of harness functions that call
                 the real /repo code; one obligation per subprocess.
  vf.sym/nra   - E2: symbolic-numeric shim (exact expressions through the real numpy
                 code) decided by z3 (and cvc5) in QF_NRA.
  vf.rtsim     - E3: runtime simulation of the real node objects on fake channels.
  vf.skeleton  - E4: skeleton execution of the real compile workflows.
"""
