"""E3: runtime simulation - the REAL node objects on fake channels under a controlled scheduler.

Nodes (DetachedServer / AttachedServer / Manager / Worker / Compiler client) are the
repository's own classes, created with `__new__` (their constructors open sockets and spawn
processes) and run by their own unmodified methods (`ServerBase.run`, `Worker._loop`,
`Worker.recv_incoming`, `Compiler.submit/result/status/cancel`, ...) in *simulated threads*:
real Python threads of which exactly one holds the baton at any time. Every blocking
primitive (Connection.recv, selector.select, Queue.get, Lock.acquire) is a fake that hands the
baton back to the controller, which asks the schedule (= the symbolic input of the harness)
which enabled thread runs next. Optionally (line-level mode) chosen functions are traced
with sys.settrace inside the simulated threads so that every source line of them is a
pre-emption point (two threads of one worker share memory).

Bounded exploration = delay-bounded scheduling: a deterministic baseline policy (lowest
priority index among the enabled threads) plus at most K deviations (step index, rank of the
alternative) and optional crash events (step index, node). K, the horizon and the topology
are the stated bounds.
"""
from __future__ import annotations

import logging
import sys
import threading
from typing import Any, Callable

from bqskit.runtime.direction import MessageDirection
from bqskit.runtime.message import RuntimeMessage

logging.getLogger('bqskit').setLevel(100)


class SimKilled(BaseException):
    """Raised inside a simulated thread to unwind it (node crashed / simulation over)."""


class SimThread:
    def __init__(self, sched: 'Sched', name: str, node: Any, fn: Callable, prio: int) -> None:
        self.sched = sched
        self.name = name
        self.node = node
        self.fn = fn
        self.prio = prio
        self.sem = threading.Semaphore(0)
        self.pred: Callable[[], bool] | None = (lambda: True)   # enabled predicate while parked
        self.label = 'start'
        self.done = False
        self.exc: BaseException | None = None
        self.dead = False
        self.trace_lines = False
        self.delayed = 0
        self.thread = threading.Thread(target=self._main, daemon=True)

    def _main(self) -> None:
        self.sem.acquire()
        try:
            if self.dead or self.sched.killing:
                return
            if self.trace_lines and self.sched.line_codes:
                sys.settrace(self.sched._tracer)
            self.fn()
        except SimKilled:
            pass
        except BaseException as e:  # noqa
            self.exc = e
        finally:
            sys.settrace(None)
            self.done = True
            self.sched.current = None
            self.sched.ctl.release()


class Sched:
    def __init__(self, schedule: 'Schedule', max_steps: int = 400) -> None:
        self.schedule = schedule
        self.threads: list[SimThread] = []
        self.ctl = threading.Semaphore(0)
        self.current: SimThread | None = None
        self.killing = False
        self.step = 0
        self.max_steps = max_steps
        self.trace: list[str] = []
        self.line_codes: set = set()
        self.crash_hook: Callable[[Any], None] | None = None
        self.on_resume: Callable[[SimThread], None] | None = None
        self.decisions = 0
        self.delay_clock = 0

    # -- called from simulated threads ---------------------------------------------------
    def park(self, pred: Callable[[], bool], label: str) -> None:
        """Give the baton back; resume when the controller picks this thread (pred() true)."""
        t = self.current
        assert t is not None and threading.current_thread() is t.thread, 'park outside a sim thread'
        t.pred, t.label = pred, label
        self.current = None
        self.ctl.release()
        t.sem.acquire()
        if t.dead or self.killing:
            raise SimKilled()

    def choice(self, n: int, label: str) -> int:
        """A non-thread decision taken inside a simulated thread (e.g. which ready connection
        the selector reports first)."""
        if n <= 1:
            return 0
        return self.schedule.decide(self, n, label)

    def _tracer(self, frame: Any, event: str, arg: Any) -> Any:
        if frame.f_code in self.line_codes:
            return self._line
        return None

    def _line(self, frame: Any, event: str, arg: Any) -> Any:
        if event == 'line':
            t = self.current
            if t is not None and not self.killing and not t.dead:
                self.park(lambda: True, 'line %s:%d' % (frame.f_code.co_name, frame.f_lineno))
        return self._line

    # -- controller ----------------------------------------------------------------------
    def spawn(self, name: str, node: Any, fn: Callable, prio: int, trace_lines: bool = False) -> SimThread:
        t = SimThread(self, name, node, fn, prio)
        t.trace_lines = trace_lines
        self.threads.append(t)
        t.thread.start()
        return t

    def enabled(self) -> list[SimThread]:
        out = []
        for t in sorted(self.threads, key=lambda x: x.prio):
            if t.done or t.dead or t.pred is None:
                continue
            try:
                if t.pred():
                    out.append(t)
            except Exception:
                out.append(t)
        return out

    def enabled_raw(self, skip: Any = None) -> list:
        """Enabled threads other than `skip`, without evaluating `skip`'s own predicate (used by predicates that
        wait for the rest of the system to fall idle)."""
        out = []
        for t in self.threads:
            if t is skip or t.done or t.dead or t.pred is None:
                continue
            if getattr(t, '_in_pred', False):
                continue
            t._in_pred = True
            try:
                if t.pred():
                    out.append(t)
            except Exception:
                out.append(t)
            finally:
                t._in_pred = False
        return out

    def run(self) -> str:
        """Runs until quiescence (no enabled thread) or the step horizon. Returns the reason.

        Baseline policy: non-pre-emptive (the thread that ran last continues while it is enabled),
        otherwise the enabled thread of lowest priority index. A deviation of rank r at a decision
        DELAYS the first r candidates: a delayed thread runs again only when no undelayed thread is
        enabled (it is overtaken by everything else that can happen) - the adversary for
        message-crossing and check-then-act races."""
        last: SimThread | None = None
        while True:
            self.schedule.before_step(self)
            en = self.enabled()
            if not en:
                return 'quiescent'
            if self.step >= self.max_steps:
                return 'horizon'
            order = ([last] if last is not None and last in en else []) + [t for t in en if t is not last]
            normal = [t for t in order if not t.delayed]
            delayed = sorted([t for t in order if t.delayed], key=lambda x: x.delayed)
            cands = normal + delayed
            if len(cands) > 1:
                r = self.schedule.decide(self, len(cands), 'thread')
                for t in cands[:r]:
                    if not t.delayed:
                        self.delay_clock += 1
                        t.delayed = self.delay_clock
                cands = cands[r:] + cands[:r]
            t = cands[0]
            t.delayed = 0
            self.trace.append('%d: %s <- %s' % (self.step, t.name, t.label))
            self.step += 1
            self.current = t
            last = t
            if self.on_resume is not None:
                self.on_resume(t)
            t.sem.release()
            self.ctl.acquire()

    def kill_node(self, node: Any) -> None:
        for t in self.threads:
            if t.node is node and not t.done:
                t.dead = True

    def shutdown(self) -> None:
        """Unwind every simulated thread that is still parked."""
        self.killing = True
        for t in self.threads:
            if not t.done:
                self.current = t
                t.sem.release()
                self.ctl.acquire()
        for t in self.threads:
            t.thread.join(timeout=2)


class Schedule:
    """Baseline (first enabled by priority) + deviations {decision index: rank} + crashes
    {step index: node name}."""

    def __init__(self, deviations: dict[int, int] | None = None, crashes: dict[int, str] | None = None) -> None:
        self.dev = dict(deviations or {})
        self.crashes = dict(crashes or {})
        self.world: Any = None

    def decide(self, sched: Sched, n: int, label: str) -> int:
        k = sched.decisions
        sched.decisions += 1
        r = self.dev.get(k, 0)
        return r % n

    def before_step(self, sched: Sched) -> None:
        name = self.crashes.get(sched.step)
        if name is not None and self.world is not None:
            self.crashes.pop(sched.step)
            self.world.crash(name)


# ------------------------------------------------------------------------------------------
# Fake primitives
# ------------------------------------------------------------------------------------------

class FakeConn:
    """One end of a duplex FIFO channel (multiprocessing.connection.Connection look-alike)."""

    def __init__(self, world: 'World', name: str) -> None:
        self.world = world
        self.name = name
        self.inbox: list = []
        self.peer: 'FakeConn' = None  # type: ignore
        self.closed = False
        self.sent_log: list = []

    def send(self, obj: Any) -> None:
        if self.closed:
            raise OSError('handle is closed')
        if self.peer.closed:
            raise ConnectionResetError('peer closed')
        if isinstance(obj, tuple) and len(obj) == 2 and isinstance(obj[1], list):
            self.sent_log.append((obj[0], list(obj[1])))      # receivers may mutate batch lists
        else:
            self.sent_log.append(obj)
        self.peer.inbox.append(obj)

    def readable(self) -> bool:
        return bool(self.inbox) or self.peer.closed or self.closed

    def recv(self) -> Any:
        s = self.world.sched
        if s.current is not None and threading.current_thread() is s.current.thread:
            s.park(self.readable, 'recv ' + self.name)
        if self.closed:
            raise OSError('handle is closed')
        if self.inbox:
            return self.inbox.pop(0)
        if self.peer.closed:
            raise EOFError()
        raise RuntimeError('recv on an empty channel outside the simulation')

    def poll(self, timeout: float = 0.0) -> bool:
        return bool(self.inbox) or self.peer.closed

    def close(self) -> None:
        self.closed = True

    def fileno(self) -> int:
        return id(self) & 0xffff

    def __repr__(self) -> str:
        return '<conn %s>' % self.name


def channel(world: 'World', a: str, b: str) -> tuple[FakeConn, FakeConn]:
    x, y = FakeConn(world, a + '->' + b), FakeConn(world, b + '->' + a)
    x.peer, y.peer = y, x
    return x, y


class FakeKey:
    def __init__(self, fileobj: Any, data: Any) -> None:
        self.fileobj, self.data = fileobj, data


class FakeSelector:
    def __init__(self, world: 'World') -> None:
        self.world = world
        self.regs: dict = {}
        self.closed = False

    def register(self, conn: Any, events: Any, data: Any) -> None:
        self.regs[conn] = data

    def unregister(self, conn: Any) -> None:
        if conn not in self.regs:
            raise KeyError(conn)
        del self.regs[conn]

    def ready(self) -> list:
        return [c for c in self.regs if isinstance(c, FakeConn) and c.readable()]

    def select(self, timeout: Any = None) -> list:
        s = self.world.sched
        s.park(lambda: bool(self.ready()) or self.closed, 'select')
        r = self.ready()
        if not r:
            return []
        i = s.choice(len(r), 'select-order')
        c = r[i]
        return [(FakeKey(c, self.regs[c]), 1)]

    def close(self) -> None:
        self.closed = True


class FakeQueue:
    def __init__(self, world: 'World', name: str) -> None:
        self.world = world
        self.items: list = []
        self.name = name

    def put(self, x: Any) -> None:
        self.items.append(x)

    def empty(self) -> bool:
        return not self.items

    def get_nowait(self) -> Any:
        from queue import Empty
        if not self.items:
            raise Empty()
        return self.items.pop(0)

    def get(self) -> Any:
        s = self.world.sched
        s.park(lambda: bool(self.items), 'queue.get ' + self.name)
        return self.items.pop(0)

    def task_done(self) -> None:
        pass

    def qsize(self) -> int:
        return len(self.items)


class FakeLock:
    def __init__(self, world: 'World', name: str) -> None:
        self.world = world
        self.owner: Any = None
        self.name = name

    def acquire(self) -> bool:
        s = self.world.sched
        if self.owner is not None:
            s.park(lambda: self.owner is None, 'lock ' + self.name)
        self.owner = s.current
        return True

    def release(self) -> None:
        self.owner = None

    def __enter__(self) -> 'FakeLock':
        self.acquire()
        return self

    def __exit__(self, *a: Any) -> None:
        self.release()


class DirectOutgoing:
    """ServerBase.outgoing whose put() performs send_outgoing's body at once (the outgoing
    thread adds no reordering beyond per-connection FIFO, which is kept)."""

    def __init__(self, node: Any) -> None:
        self.node = node

    def put(self, item: Any) -> None:
        if not isinstance(item, tuple):
            return
        conn, msg, payload = item
        if not self.node.running:
            return
        if conn.closed:
            return
        try:
            conn.send((msg, payload))
        except (EOFError, ConnectionResetError):
            self.node.handle_disconnect(conn)

    def task_done(self) -> None:
        pass


class DeadThread:
    def is_alive(self) -> bool:
        return False

    def join(self) -> None:
        pass


# ------------------------------------------------------------------------------------------
# World: topology of real node objects
# ------------------------------------------------------------------------------------------

class World:
    def __init__(self, schedule: Schedule, max_steps: int = 400) -> None:
        self.sched = Sched(schedule, max_steps)
        schedule.world = self
        self.nodes: dict[str, Any] = {}
        self.workers: list = []
        self.clients: list = []
        self.client_threads: list = []
        self.server: Any = None
        self.managers: list = []
        self.crashed: list[str] = []
        self.killed_workers: list = []
        self._patches: list = []
        self.sched.on_resume = self._on_resume
        self.line_level = False

    # ---- construction ------------------------------------------------------------------
    def _server_base(self, srv: Any) -> None:
        srv.lower_id_bound = 0
        srv.upper_id_bound = int(2 ** 30)
        srv.running = True
        srv.sel = FakeSelector(self)
        srv.employees = []
        srv.conn_to_employee_dict = {}
        srv.outgoing = DirectOutgoing(srv)
        srv.outgoing_thread = DeadThread()
        srv.terminate_hotline = None

    def make_server(self, kind: str = 'detached') -> Any:
        from bqskit.runtime.attached import AttachedServer
        from bqskit.runtime.detached import DetachedServer
        cls = DetachedServer if kind == 'detached' else AttachedServer
        srv = cls.__new__(cls)
        self._server_base(srv)
        srv.clients = {}
        srv.tasks = {}
        srv.mailbox_to_task_dict = {}
        srv.mailboxes = {}
        srv.mailbox_counter = 0
        srv.step_size = 1
        srv.total_workers = 0
        srv.num_idle_workers = 0
        self.server = srv
        self.nodes['server'] = srv
        return srv

    def make_manager(self, boss: Any, lb: int, ub: int, name: str) -> Any:
        from bqskit.runtime.base import RuntimeEmployee
        from bqskit.runtime.manager import Manager
        m = Manager.__new__(Manager)
        self._server_base(m)
        up, down = channel(self, name, 'boss')
        m.upstream = up
        m.lower_id_bound, m.upper_id_bound = lb, ub
        m.sel.register(up, 1, MessageDirection.ABOVE)
        m.step_size = 1
        m.total_workers = 0
        m.num_idle_workers = 0
        m.most_recent_read_submit = None
        self.nodes[name] = m
        self.managers.append(m)
        m._sim_boss_conn = down
        m._sim_name = name
        return m

    def attach_manager(self, boss: Any, m: Any, idx: int) -> None:
        from bqskit.runtime.base import RuntimeEmployee
        e = RuntimeEmployee(idx, m._sim_boss_conn, m.total_workers, is_manager=True)
        boss.employees.append(e)
        boss.conn_to_employee_dict[m._sim_boss_conn] = e
        boss.sel.register(m._sim_boss_conn, 1, MessageDirection.BELOW)
        boss.total_workers += m.total_workers
        boss.num_idle_workers = boss.total_workers
        m.last_num_idle_sent_up = m.total_workers

    def make_worker(self, boss: Any, wid: int) -> Any:
        from bqskit.runtime.base import RuntimeEmployee
        from bqskit.runtime.worker import Worker
        name = 'w%d' % wid
        wc, bc = channel(self, name, 'boss')
        w = Worker.__new__(Worker)
        w._id = wid
        w._conn = wc
        w._tasks = {}
        w._delayed_tasks = []
        w._ready_task_ids = FakeQueue(self, name + '.ready')
        w._cancelled_task_ids = set()
        w._active_task = None
        w._running = True
        w._mailboxes = {}
        w._mailbox_counter = 0
        w._cache = {}
        w.most_recent_read_submit = None
        w.read_receipt_mutex = FakeLock(self, name + '.mutex')
        # every other `self.X = Lock()` of the real constructor (read from the source at run time)
        import inspect
        import re
        for attr in re.findall(r'self\.(\w+)\s*=\s*Lock\(\)', inspect.getsource(Worker.__init__)):
            if attr != 'read_receipt_mutex':
                setattr(w, attr, FakeLock(self, name + '.' + attr))
        w._sim_name = name
        e = RuntimeEmployee(wid, bc, 1)
        boss.employees.append(e)
        boss.conn_to_employee_dict[bc] = e
        boss.sel.register(bc, 1, MessageDirection.BELOW)
        boss.total_workers += 1
        boss.num_idle_workers = boss.total_workers
        self.workers.append(w)
        self.nodes[name] = w
        return w

    def make_client(self, name: str = 'client') -> Any:
        from bqskit.compiler.compiler import Compiler
        c = Compiler.__new__(Compiler)
        cc, sc = channel(self, name, 'server')
        c.conn = cc
        c.p = None
        c._sim_name = name
        self.server.clients[sc] = set()
        self.server.sel.register(sc, 1, MessageDirection.CLIENT)
        self.clients.append(c)
        self.nodes[name] = c
        c._sim_server_conn = sc
        return c

    # ---- running -----------------------------------------------------------------------
    def _on_resume(self, t: SimThread) -> None:
        import bqskit.runtime.worker as wm
        from bqskit.runtime.worker import Worker
        if isinstance(t.node, Worker):
            wm._worker = t.node

    def patch(self, obj: Any, attr: str, val: Any) -> None:
        self._patches.append((obj, attr, getattr(obj, attr)))
        setattr(obj, attr, val)

    def start(self, client_scripts: list[Callable[[Any], Any]], line_funcs: list | None = None) -> None:
        import bqskit.compiler.compiler as cm
        import bqskit.runtime.base as bm
        import bqskit.runtime.detached as dm
        import bqskit.runtime.manager as mm
        import bqskit.runtime.worker as wm

        world = self

        class _Os:
            def __getattr__(self, n: str) -> Any:
                import os
                return getattr(os, n)

            def kill(self, pid: int, sig: int) -> None:
                t = world.sched.current
                if t is not None:
                    world.killed_workers.append(t.node)
                    world.kill_node_obj(t.node)
                raise SimKilled()

            def getpid(self) -> int:
                return 0

        class _Time:
            def __getattr__(self, n: str) -> Any:
                import time
                return getattr(time, n)

            def sleep(self, s: float) -> None:
                return None
        class _Random:
            """random.shuffle / random.random of bqskit.runtime.base as scheduler decisions:
            every permutation is producible (Fisher-Yates with one decision per position; the
            baseline is the identity), ties are broken by a decision between 'keep' and 'flip'."""

            def __init__(self) -> None:
                self.k = 0

            def shuffle(self, lst: list) -> None:
                n = len(lst)
                for i in range(n - 1):
                    j = i + world.sched.choice(n - i, 'shuffle')
                    lst[i], lst[j] = lst[j], lst[i]

            def random(self) -> float:
                self.k += 1
                flip = world.sched.choice(2, 'tiebreak')
                return (1.0 - self.k * 1e-6) if flip else self.k * 1e-6
        self.patch(bm, 'random', _Random())
        self.patch(wm, 'os', _Os())
        for m in (wm, bm, dm, mm, cm):
            if hasattr(m, 'time'):
                self.patch(m, 'time', _Time())
        if line_funcs:
            self.sched.line_codes = {f.__code__ for f in line_funcs}
        prio = 0
        for i, (c, script) in enumerate(zip(self.clients, client_scripts)):
            def run_client(c: Any = c, script: Any = script) -> None:
                c._sim_result = script(c)
            self.client_threads.append(self.sched.spawn(c._sim_name, c, run_client, prio))
            prio += 1
        self.sched.spawn('server', self.server, self.server.run, prio)
        prio += 1
        for m in self.managers:
            self.sched.spawn(m._sim_name, m, m.run, prio)
            prio += 1
        for w in self.workers:
            self.sched.spawn(w._sim_name + '.main', w, w._loop, prio, trace_lines=bool(line_funcs))
            prio += 1
            self.sched.spawn(w._sim_name + '.in', w, w.recv_incoming, prio, trace_lines=bool(line_funcs))
            prio += 1

    def kill_node_obj(self, node: Any) -> None:
        self.sched.kill_node(node)
        # the OS closes every connection of a dead process
        for attr in ('_conn', 'upstream', 'conn'):
            c = getattr(node, attr, None)
            if isinstance(c, FakeConn):
                c.closed = True
        for e in list(getattr(node, 'employees', []) or []):
            if isinstance(e.conn, FakeConn):
                e.conn.closed = True
        for c in list(getattr(node, 'clients', {}) or {}):
            if isinstance(c, FakeConn):
                c.closed = True

    def crash(self, name: str) -> None:
        node = self.nodes.get(name)
        if node is None:
            return
        self.crashed.append(name)
        self.sched.trace.append('%d: CRASH %s' % (self.sched.step, name))
        self.kill_node_obj(node)

    def run(self) -> str:
        try:
            return self.sched.run()
        finally:
            pass

    def finish(self) -> None:
        self.sched.shutdown()
        for obj, attr, val in reversed(self._patches):
            setattr(obj, attr, val)
        import bqskit.runtime.worker as wm
        wm._worker = None

    def thread_errors(self) -> list[tuple[str, BaseException]]:
        return [(t.name, t.exc) for t in self.sched.threads if t.exc is not None]


def flat_world(schedule: Schedule, n_workers: int, n_clients: int = 1, kind: str = 'detached',
               max_steps: int = 400) -> World:
    w = World(schedule, max_steps)
    srv = w.make_server(kind)
    for i in range(n_workers):
        w.make_worker(srv, i)
    for i in range(n_clients):
        w.make_client('client%d' % i)
    return w


def managed_world(schedule: Schedule, workers_per_manager: list[int], n_clients: int = 1,
                  max_steps: int = 600) -> World:
    w = World(schedule, max_steps)
    srv = w.make_server('detached')
    d = len(workers_per_manager)
    srv.step_size = (srv.upper_id_bound - srv.lower_id_bound) // d
    for i, n in enumerate(workers_per_manager):
        lb = srv.lower_id_bound + i * srv.step_size
        ub = min(srv.lower_id_bound + (i + 1) * srv.step_size, srv.upper_id_bound)
        m = w.make_manager(srv, lb, ub, 'm%d' % i)
        for k in range(n):
            w.make_worker(m, lb + k)
        w.attach_manager(srv, m, i)
    for i in range(n_clients):
        w.make_client('client%d' % i)
    return w
