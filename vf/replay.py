"""Replays a counterexample on the plain interpreter (no CrossHair, no symbolic values).

usage: python -m vf.replay <replay.json> [--json]

A 'ch' replay calls the harness function (which calls the real /repo code) with the
concrete arguments the solver produced; "reproduced" = it returns False or raises.
A 'direct' replay calls `<module>.replay(shard, cex)` which re-evaluates the concrete
parameter vector through the unmodified numeric code.
"""
from __future__ import annotations

import importlib
import json
import sys
import traceback


def run(path: str) -> dict:
    from vf import rt
    spec = json.load(open(path))
    rt.SHARD.clear()
    rt.SHARD.update(spec.get('shard', {}))
    rt.SHARD['_known'] = []          # a replay never suppresses anything
    rt.CONCRETE = True
    rt.TRACE.clear()
    rt.FINGERPRINT.clear()
    mod = importlib.import_module(spec['module'])
    res: dict = {'reproduced': False, 'detail': ''}
    if spec.get('kind', 'ch') == 'ch':
        fn = getattr(mod, spec['function'])
        try:
            r = fn(*spec.get('args', []), **spec.get('kwargs', {}))
            res['reproduced'] = (r is False)
            res['detail'] = 'harness returned %r' % (r,)
        except Exception as e:
            # A precondition of the harness is checked by CrossHair, not here; harness
            # functions only raise when the code under test raised something unexpected.
            res['reproduced'] = True
            res['detail'] = 'raised ' + ''.join(traceback.format_exception(e))[-1200:]
            if not rt.FINGERPRINT:
                rt.FINGERPRINT.append('exception:' + type(e).__name__)
    else:
        ok, detail = mod.replay(spec.get('shard', {}), spec.get('cex', {}))
        res['reproduced'] = bool(ok)
        res['detail'] = detail
    res['trace'] = list(rt.TRACE)
    res['fingerprint'] = rt.FINGERPRINT[0] if rt.FINGERPRINT else 'unclassified'
    return res


def main() -> None:
    path = sys.argv[1]
    res = run(path)
    if '--json' in sys.argv:
        print('\n@@REPLAY@@' + json.dumps(res, default=str))
    else:
        for line in res['trace']:
            print('  ', line)
        print('fingerprint:', res['fingerprint'])
        print(res['detail'])
        print('REPRODUCED' if res['reproduced'] else 'NOT REPRODUCED')
    sys.exit(0 if res['reproduced'] else 4)


if __name__ == '__main__':
    main()
