"""Runs ONE obligation in this process and prints one JSON line (last line of stdout).

usage: python -m vf.chworker <harness module> <function> <shard json> <timeout s> [kind]

kind = 'ch'     : CrossHair (z3) symbolic execution of the harness function, which calls
                  the real /repo code. Verdict = CrossHair's: CONFIRMED (path tree
                  exhausted, every path satisfies `post: _`), a counterexample, or
                  inconclusive.
kind = 'direct' : the function builds and discharges its own SMT queries (E2) and returns
                  a dict {status, ...}.
"""
from __future__ import annotations

import ast
import importlib
import json
import re
import sys
import time
import traceback


def _patch_crosshair():
    import crosshair.core_and_libs  # noqa
    import crosshair.core as C
    _o = C.consider_shortcircuit

    def _no_sc(fn, sig, bound, subconditions, allow_interpretation):
        if allow_interpretation:
            return None
        return _o(fn, sig, bound, subconditions, allow_interpretation)
    C.consider_shortcircuit = _no_sc
    # CrossHair measures its time limits in process CPU time; the caps of the driver (and its --budget
    # arithmetic) are wall-clock, and the simulated runtime (E3) spends wall time waiting on thread
    # hand-overs: both modules that read the clock are switched to the monotonic wall clock.
    import time as _t
    import crosshair.statespace as SS
    C.process_time = _t.monotonic
    SS.process_time = _t.monotonic


SOLVER = {'calls': 0, 'seconds': 0.0}


def _time_solver():
    import z3
    orig = z3.Solver.check

    def check(self, *a):
        t = time.perf_counter()
        try:
            return orig(self, *a)
        finally:
            SOLVER['calls'] += 1
            SOLVER['seconds'] += time.perf_counter() - t
    z3.Solver.check = check


def parse_call_args(message: str, fname: str):
    """'... when calling h(1, [2, 3], x=True)' -> (args, kwargs) via ast.literal_eval."""
    i = message.find('when calling ' + fname + '(')
    if i < 0:
        return None
    text = message[i + len('when calling '):]
    depth, end = 0, -1
    for j, ch in enumerate(text):
        if ch in '([{':
            depth += 1
        elif ch in ')]}':
            depth -= 1
            if depth == 0:
                end = j
                break
    if end < 0:
        return None
    try:
        call = ast.parse(text[:end + 1].strip(), mode='eval').body
        args = [ast.literal_eval(a) for a in call.args]
        kwargs = {k.arg: ast.literal_eval(k.value) for k in call.keywords}
        return args, kwargs
    except Exception:
        return None


def run_ch(modname: str, fname: str, shard: dict, timeout: float) -> dict:
    _patch_crosshair()
    _time_solver()
    from crosshair.core import analyze_function, run_checkables
    from crosshair.options import AnalysisOptionSet
    from crosshair.statespace import MessageType
    from vf import rt
    rt.SHARD.clear()
    rt.SHARD.update(shard)
    mod = importlib.import_module(modname)
    fn = getattr(mod, fname)
    opts = AnalysisOptionSet(
        per_condition_timeout=timeout, per_path_timeout=timeout,
        report_all=True, max_uninteresting_iterations=10**9,
    )
    msgs = list(run_checkables(analyze_function(fn, opts)))
    out = {
        'paths': rt.PATHS, 'reached': rt.REACHED,
        'solver_calls': SOLVER['calls'], 'solver_s': round(SOLVER['seconds'], 3),
        'messages': [(m.state.name, m.message[:400]) for m in msgs],
    }
    states = [m.state for m in msgs]
    bad = [m for m in msgs if m.state in (
        MessageType.POST_FAIL, MessageType.EXEC_ERR, MessageType.POST_ERR)]
    if bad:
        m = bad[0]
        parsed = parse_call_args(m.message, fname)
        out['status'] = 'refuted'
        out['cex_message'] = m.message[:600]
        if parsed is None:
            out['status'] = 'error'
            out['error'] = 'could not parse counterexample: ' + m.message[:300]
        else:
            out['args'], out['kwargs'] = parsed
    elif not msgs:
        out['status'] = 'error'
        out['error'] = 'no conditions found'
    elif all(s == MessageType.CONFIRMED for s in states):
        if rt.REACHED == 0:
            out['status'] = 'error'
            out['error'] = 'vacuous: confirmed but the oracle was never reached'
        else:
            out['status'] = 'discharged'
    elif any(s in (MessageType.PRE_UNSAT,) for s in states):
        out['status'] = 'error'
        out['error'] = 'unable to meet precondition (vacuous or all paths aborted)'
    elif any(s in (MessageType.SYNTAX_ERR, MessageType.IMPORT_ERR) for s in states):
        out['status'] = 'error'
        out['error'] = msgs[0].message[:400]
    else:
        out['status'] = 'inconclusive'
    return out


def run_direct(modname: str, fname: str, shard: dict, timeout: float) -> dict:
    from vf import rt
    rt.SHARD.clear()
    rt.SHARD.update(shard)
    mod = importlib.import_module(modname)
    fn = getattr(mod, fname)
    out = fn(shard, timeout)
    assert isinstance(out, dict) and 'status' in out
    return out


def main() -> None:
    modname, fname, shard_json, timeout = sys.argv[1:5]
    kind = sys.argv[5] if len(sys.argv) > 5 else 'ch'
    shard = json.loads(shard_json)
    t0 = time.time()
    from vf import arena
    arena.install()          # optional accelerator, no effect on what is explored
    try:
        if kind == 'ch':
            out = run_ch(modname, fname, shard, float(timeout))
        else:
            out = run_direct(modname, fname, shard, float(timeout))
    except BaseException as e:  # noqa
        out = {'status': 'error', 'error': ''.join(traceback.format_exception(e))[-1500:]}
    out['wall_s'] = round(time.time() - t0, 2)
    sys.stdout.flush()
    print('\n@@RESULT@@' + json.dumps(out, default=str))


if __name__ == '__main__':
    main()
