"""C20 (G) - textbook reference model of an undirected graph + one check per CouplingGraph method.

Structure of one obligation (see `run`):

  traced phase  : the symbolic booleans (one per vertex pair, optionally a second one "edge is
                  remote") are forked with `if bit:` into a *concrete* edge list; the symbolic
                  integers (qudit, source, size, location, renumbering, ...) are split by the
                  solver-decided ladder rt.P with ranges computed lazily from what is already
                  concrete (no dead paths).
  native phase  : the real bqskit.qis.graph code runs untraced (rt.nt) on the concrete inputs and
                  its return value is compared with the definition computed by the reference code
                  in this file (BFS reachability, Bellman-Ford distances, brute-force connected
                  k-subsets, brute-force injective edge-preserving maps, ...).

Every check returns None (holds) or a fingerprint string '<method>:<what>'.
"""
from __future__ import annotations

import itertools as it
import warnings
from typing import Any

import bqskit.ir  # noqa: F401  (bqskit.qis.graph cannot be imported first: circular import)
import bqskit.qis.graph as graph_mod
from bqskit.ir.location import CircuitLocation
from bqskit.qis.graph import CouplingGraph
from vf import rt

INF = float('inf')


# --------------------------------------------------------------------------- reference model

def all_pairs(n: int) -> list[tuple[int, int]]:
    return [(a, b) for a in range(n) for b in range(a + 1, n)]


def adj_of(n: int, edges: list) -> list[set]:
    adj: list[set] = [set() for _ in range(n)]
    for a, b in edges:
        adj[a].add(b)
        adj[b].add(a)
    return adj


def bfs_dist(n: int, adj: list[set], s: int, removed: int = -1) -> list[float]:
    d = [INF] * n
    d[s] = 0
    queue = [s]
    while queue:
        v = queue.pop(0)
        for w in sorted(adj[v]):
            if w != removed and d[w] == INF:
                d[w] = d[v] + 1
                queue.append(w)
    return d


def is_connected(n: int, adj: list[set], removed: int = -1) -> bool:
    """Every vertex (other than `removed`) reaches every other one."""
    vs = [v for v in range(n) if v != removed]
    for s in vs:
        d = bfs_dist(n, adj, s, removed)
        if any(d[v] == INF for v in vs):
            return False
    return True


def components(n: int, adj: list[set]) -> list[frozenset]:
    seen: set = set()
    out = []
    for s in range(n):
        if s in seen:
            continue
        d = bfs_dist(n, adj, s)
        comp = frozenset(v for v in range(n) if d[v] != INF)
        seen |= comp
        out.append(comp)
    return out


def bellman(n: int, w: dict) -> list[list[float]]:
    """All-pairs distances for symmetric positive weights w[(a, b)], a < b. D[i][i] = 0."""
    D = [[INF] * n for _ in range(n)]
    for s in range(n):
        D[s][s] = 0
        for _ in range(max(n - 1, 1)):
            for (a, b), x in w.items():
                if D[s][a] + x < D[s][b]:
                    D[s][b] = D[s][a] + x
                if D[s][b] + x < D[s][a]:
                    D[s][a] = D[s][b] + x
    return D


def connected_subsets(n: int, adj: list[set], k: int) -> set:
    out = set()
    for sub in it.combinations(range(n), k):
        s = set(sub)
        sadj = [adj[v] & s if v in s else set() for v in range(n)]
        d = bfs_dist(n, sadj, sub[0])
        if all(d[v] != INF for v in sub):
            out.add(frozenset(sub))
    return out


def embeds(n1: int, e1: list, n2: int, e2: list) -> bool:
    """Exists an injective f: [n1] -> [n2] with {f(u), f(v)} in e2 for every {u, v} in e1."""
    if n1 > n2:
        return False
    s2 = {frozenset(e) for e in e2}
    img: list[int] = []

    def rec(v: int) -> bool:
        if v == n1:
            return True
        for c in range(n2):
            if c in img:
                continue
            if all(frozenset((img[u], c)) in s2 for (u, w) in e1 if w == v and u < v) and \
               all(frozenset((img[w], c)) in s2 for (u, w) in e1 if u == v and w < v):
                img.append(c)
                if rec(v + 1):
                    return True
                img.pop()
        return False
    return rec(0)


def norm(e: Any) -> tuple:
    a, b = e
    return (a, b) if a <= b else (b, a)


# --------------------------------------------------------------------------- observation helpers

def call(fn: Any, *a: Any, **k: Any) -> tuple:
    """(value, None) or (None, exception). Deprecation warnings of the code under test are muted."""
    try:
        with warnings.catch_warnings():
            warnings.simplefilter('ignore')
            return fn(*a, **k), None
    except Exception as e:  # noqa
        return None, e


def repr_fp(g: Any, n: int, edges: list, weights: dict | None = None, what: str = 'graph') -> str | None:
    """The object is a CouplingGraph on n qudits with exactly `edges` (normalised pairs);
    the three parallel representations (_edges, _adj, _mat) and the public views agree."""
    if not isinstance(g, CouplingGraph):
        return '%s:not-a-CouplingGraph' % what
    exp = {norm(e) for e in edges}
    if g.num_qudits != n:
        rt.log(what, 'num_qudits', g.num_qudits, 'expected', n)
        return '%s:num_qudits' % what
    listed = list(g)
    if len(listed) != len(set(listed)) or len(g) != len(listed):
        return '%s:duplicate-edges' % what
    if any(not (isinstance(e, tuple) and len(e) == 2 and e[0] < e[1]) for e in listed):
        rt.log(what, 'edges', listed)
        return '%s:edge-not-normalised' % what
    if set(listed) != exp:
        rt.log(what, 'edges', sorted(listed), 'expected', sorted(exp))
        return '%s:edges' % what
    for a in range(n):
        for b in range(n):
            if a < b and ((a, b) in g) != ((a, b) in exp):
                return '%s:contains' % what
    adj = adj_of(n, list(exp))
    if [set(x) for x in g._adj] != adj or len(g._adj) != n:
        rt.log(what, '_adj', g._adj, 'expected', adj)
        return '%s:adjacency' % what
    if g.get_qudit_degrees() != [len(x) for x in adj]:
        return '%s:degrees' % what
    for a in range(n):
        for b in range(n):
            x = g._mat[a][b]
            if norm((a, b)) in exp and a != b:
                want = 1.0 if weights is None else weights[norm((a, b))]
                if x != want:
                    rt.log(what, '_mat', g._mat)
                    return '%s:weight-matrix' % what
            elif x != INF:
                rt.log(what, '_mat', g._mat)
                return '%s:weight-matrix' % what
    return None


def mk(n: int, edges: list, remote: list | None = None, over: dict | None = None) -> CouplingGraph:
    if remote or over:
        return CouplingGraph(list(edges), n, remote_edges=list(remote or []),
                             edge_weights_overrides=dict(over or {}))
    return CouplingGraph(list(edges), n)


def raised_fp(name: str, e: Exception) -> str:
    rt.log(name, 'raised', repr(e))
    return '%s:raised:%s' % (name, type(e).__name__)


# --------------------------------------------------------------------------- checks (native)

def chk_conn(n: int, edges: list) -> str | None:
    g = mk(n, edges)
    v, e = call(g.is_fully_connected)
    if e is not None:
        return raised_fp('is_fully_connected', e)
    want = is_connected(n, adj_of(n, edges))
    if v is not want:
        rt.log('is_fully_connected ->', v, 'reference', want)
        return 'is_fully_connected:wrong'
    return None


def chk_basic(n: int, edges: list) -> list:
    return [chk_conn(n, edges), chk_deg(n, edges), chk_apsp(n, edges, False)]


def chk_vertex(n: int, edges: list, q: int) -> list:
    return [chk_nbr(n, edges, q), chk_spt(n, edges, q), chk_without(n, edges, q) if n >= 2 else None]


def chk_without(n: int, edges: list, q: int) -> str | None:
    g = mk(n, edges)
    v, e = call(g.is_fully_connected_without, q)
    if e is not None:
        return raised_fp('is_fully_connected_without', e)
    want = is_connected(n, adj_of(n, edges), q)
    if v is not want:
        rt.log('is_fully_connected_without(%d) ->' % q, v, 'reference', want)
        return 'is_fully_connected_without:wrong'
    return None


def chk_linear(n: int, edges: list) -> str | None:
    """Linear = the graph is a path on all of its n >= 2 vertices."""
    g = mk(n, edges)
    v, e = call(g.is_linear)
    if e is not None:
        return raised_fp('is_linear', e)
    adj = adj_of(n, edges)
    want = n >= 2 and is_connected(n, adj) and len(edges) == n - 1 and max(len(a) for a in adj) <= 2
    if v is not want:
        rt.log('is_linear ->', v, 'reference (connected, n-1 edges, max degree 2)', want)
        return 'is_linear:wrong'
    return None


def chk_deg(n: int, edges: list) -> str | None:
    g = mk(n, edges)
    fp = repr_fp(g, n, edges, what='CouplingGraph')
    if fp:
        return fp
    v, e = call(g.get_qudit_degrees)
    if e is not None:
        return raised_fp('get_qudit_degrees', e)
    want = [sum(1 for x in edges if q in x) for q in range(n)]
    if v != want:
        rt.log('get_qudit_degrees ->', v, 'reference', want)
        return 'get_qudit_degrees:wrong'
    return None


def chk_nbr(n: int, edges: list, q: int) -> str | None:
    g = mk(n, edges)
    v, e = call(g.get_neighbors_of, q)
    if e is not None:
        return raised_fp('get_neighbors_of', e)
    want = sorted(b if a == q else a for (a, b) in edges if q in (a, b))
    if not isinstance(v, list) or sorted(v) != want:
        rt.log('get_neighbors_of(%d) ->' % q, v, 'reference', want)
        return 'get_neighbors_of:wrong'
    return None


def chk_apsp(n: int, edges: list, diag: bool) -> str | None:
    g = mk(n, edges)
    v, e = call(g.all_pairs_shortest_path)
    if e is not None:
        return raised_fp('all_pairs_shortest_path', e)
    D = bellman(n, {norm(x): 1.0 for x in edges})
    adj = adj_of(n, edges)
    for i in range(n):
        if bfs_dist(n, adj, i) != D[i]:
            raise AssertionError('reference disagrees with itself')
    if len(v) != n or any(len(r) != n for r in v):
        return 'all_pairs_shortest_path:shape'
    for i in range(n):
        for j in range(n):
            if (i == j) == diag and v[i][j] != D[i][j]:
                rt.log('all_pairs_shortest_path ->', v, 'reference', D)
                return 'all_pairs_shortest_path:' + ('diagonal' if diag else 'wrong')
    return None


def chk_apsp_w(n: int, edges: list, remote: list, over: dict) -> str | None:
    g = mk(n, edges, remote, over)
    w = {norm(x): 1.0 for x in edges}
    for x in remote:
        w[norm(x)] = 100.0
    for x, y in over.items():
        w[norm(x)] = y
    fp = repr_fp(g, n, edges, w, 'CouplingGraph')
    if fp:
        return fp
    v, e = call(g.all_pairs_shortest_path)
    if e is not None:
        return raised_fp('all_pairs_shortest_path', e)
    D = bellman(n, w)
    for i in range(n):
        for j in range(n):
            if i != j and v[i][j] != D[i][j]:
                rt.log('weights', w, 'all_pairs_shortest_path ->', v, 'reference', D)
                return 'all_pairs_shortest_path:weighted-wrong'
    return None


def chk_spt(n: int, edges: list, s: int) -> str | None:
    g = mk(n, edges)
    v, e = call(g.get_shortest_path_tree, s)
    adj = adj_of(n, edges)
    d = bfs_dist(n, adj, s)
    if any(x == INF for x in d):
        # a path to an unreachable qudit does not exist: the call must refuse
        if e is None:
            rt.log('get_shortest_path_tree(%d) ->' % s, v, 'although distances are', d)
            return 'get_shortest_path_tree:unreachable-not-refused'
        if not isinstance(e, (RuntimeError, ValueError)):
            return raised_fp('get_shortest_path_tree', e)
        return None
    if e is not None:
        return raised_fp('get_shortest_path_tree', e)
    if not isinstance(v, list) or len(v) != n:
        return 'get_shortest_path_tree:shape'
    for t in range(n):
        p = tuple(v[t])
        ok = len(p) >= 1 and p[0] == s and p[-1] == t and len(p) - 1 == d[t] and \
            all(p[i + 1] in adj[p[i]] for i in range(len(p) - 1))
        if not ok:
            rt.log('get_shortest_path_tree(%d) ->' % s, v, 'distances', d)
            return 'get_shortest_path_tree:wrong'
    return None


def chk_ksub(n: int, edges: list, k: int) -> str | None:
    g = mk(n, edges)
    v, e = call(g.get_subgraphs_of_size, k)
    if k <= 0 or k > n:
        if e is None:
            return 'get_subgraphs_of_size:bad-size-accepted'
        if not isinstance(e, ValueError):
            return raised_fp('get_subgraphs_of_size', e)
        return None
    if e is not None:
        return raised_fp('get_subgraphs_of_size', e)
    want = connected_subsets(n, adj_of(n, edges), k)
    if any(not isinstance(x, CircuitLocation) or len(x) != k for x in v):
        return 'get_subgraphs_of_size:not-a-location'
    got = [frozenset(x) for x in v]
    if set(got) != want:
        rt.log('get_subgraphs_of_size(%d) ->' % k, [tuple(x) for x in v], 'reference', sorted(map(sorted, want)))
        return 'get_subgraphs_of_size:wrong'
    if len(got) != len(set(got)):
        rt.log('get_subgraphs_of_size(%d) ->' % k, [tuple(x) for x in v])
        return 'get_subgraphs_of_size:duplicates'
    return None


def chk_subgraph(n: int, edges: list, loc: list, ren: dict | None) -> str | None:
    g = mk(n, edges)
    v, e = call(g.get_subgraph, list(loc), None if ren is None else dict(ren))
    if e is not None:
        return raised_fp('get_subgraph', e)
    r = ren if ren is not None else {q: i for i, q in enumerate(loc)}
    want = [norm((r[a], r[b])) for (a, b) in edges if a in r and b in r]
    fp = repr_fp(v, len(loc), want, what='get_subgraph')
    if fp:
        rt.log('get_subgraph(%r, %r)' % (loc, ren), '->', v)
    return fp


def chk_subgraph_all(n: int, edges: list, sub: list) -> str | None:
    """Every ordering of the subset as location x (default + every renumbering)."""
    m = len(sub)
    for loc in it.permutations(sub):
        fp = chk_subgraph(n, edges, list(loc), None)
        if fp:
            return fp
    for vals in it.permutations(range(m)):
        ren = {q: vals[i] for i, q in enumerate(sub)}
        for loc in (list(sub), list(reversed(sub))):
            fp = chk_subgraph(n, edges, loc, ren)
            if fp:
                return fp
    return None


def chk_induced(n: int, edges: list, loc: list) -> str | None:
    g = mk(n, edges)
    v, e = call(g.get_induced_subgraph, list(loc))
    if e is not None:
        return raised_fp('get_induced_subgraph', e)
    want = sorted(norm(x) for x in edges if x[0] in loc and x[1] in loc)
    if not isinstance(v, list) or sorted(v) != want:
        rt.log('get_induced_subgraph(%r) ->' % (loc,), v, 'reference', want)
        return 'get_induced_subgraph:wrong'
    return None


def chk_relabel(labels: list, edges: list, ren: dict | None) -> str | None:
    """`edges` carry the original (non-contiguous) labels. Default relabeling = order preserving
    onto {0..|V|-1} where V = endpoints of the edges."""
    v, e = call(CouplingGraph.relabel_subgraph, list(edges), None if ren is None else dict(ren))
    if e is not None:
        return raised_fp('relabel_subgraph', e)
    if ren is None:
        vs = sorted({q for x in edges for q in x})
        r = {q: i for i, q in enumerate(vs)}
    else:
        r = ren
    want = [norm((r[a], r[b])) for (a, b) in edges]
    nq = max(max(x) for x in want) + 1
    fp = repr_fp(v, nq, want, what='relabel_subgraph')
    if fp:
        rt.log('relabel_subgraph(%r, %r) ->' % (edges, ren), v, 'expected', sorted(set(want)))
    return fp


def chk_embed(n1: int, e1: list, n2: int, e2: list) -> str | None:
    g1, g2 = mk(n1, e1), mk(n2, e2)
    v, e = call(g1.is_embedded_in, g2)
    if e is not None:
        return raised_fp('is_embedded_in', e)
    want = embeds(n1, e1, n2, e2)
    if v is not want:
        rt.log('%r.is_embedded_in(%r) ->' % (e1, e2), v, 'reference', want)
        return 'is_embedded_in:wrong'
    return None


def chk_matching(n: int, edges: list, ignore: list, order: list | None) -> str | None:
    """order: None = randomize False; else the permutation `shuffle` applies (Lehmer decoded)."""
    g = mk(n, edges)
    if order is None:
        v, e = call(g.maximal_matching, list(ignore))
    else:
        def fake_shuffle(lst: list) -> None:
            assert len(lst) == len(order)
            lst[:] = [lst[i] for i in order]
        old = graph_mod.shuffle
        graph_mod.shuffle = fake_shuffle
        try:
            v, e = call(g.maximal_matching, list(ignore), True)
        finally:
            graph_mod.shuffle = old
    if e is not None:
        return raised_fp('maximal_matching', e)
    ign = {norm(x) for x in ignore}
    usable = {norm(x) for x in edges} - ign
    used: set = set()
    for x in v:
        if not (isinstance(x, tuple) and len(x) == 2) or norm(x) not in usable:
            rt.log('maximal_matching ->', v, 'usable edges', sorted(usable))
            return 'maximal_matching:not-an-allowed-edge'
        if x[0] in used or x[1] in used:
            rt.log('maximal_matching ->', v)
            return 'maximal_matching:not-a-matching'
        used.update(x)
    for (a, b) in usable:
        if a not in used and b not in used:
            rt.log('maximal_matching ->', v, 'could still add', (a, b))
            return 'maximal_matching:not-maximal'
    return None


def chk_span(n: int, edges: list, root: int) -> str | None:
    """Connected graphs only: n-1 graph edges, each joining an already connected qudit (first
    entry) to a new one (second entry), starting from root."""
    g = mk(n, edges)
    v, e = call(g.get_rooted_minimum_span, root)
    if e is not None:
        return raised_fp('get_rooted_minimum_span', e)
    es = {norm(x) for x in edges}
    seen = {root}
    for x in v:
        if not (isinstance(x, tuple) and len(x) == 2) or norm(x) not in es:
            rt.log('get_rooted_minimum_span(%d) ->' % root, v)
            return 'get_rooted_minimum_span:not-an-edge'
        if x[0] not in seen or x[1] in seen:
            rt.log('get_rooted_minimum_span(%d) ->' % root, v)
            return 'get_rooted_minimum_span:not-rooted-tree-order'
        seen.add(x[1])
    if len(seen) != n:
        rt.log('get_rooted_minimum_span(%d) ->' % root, v)
        return 'get_rooted_minimum_span:not-spanning'
    return None


def chk_eq(n1: int, e1: list, n2: int, e2: list) -> str | None:
    g1, g2 = mk(n1, e1), mk(n2, e2)
    v, e = call(lambda: (g1 == g2, g2 == g1, g1 != g2, g1 == list(e1), hash(g1), hash(g2)))
    if e is not None:
        return raised_fp('__eq__', e)
    want = n1 == n2 and {norm(x) for x in e1} == {norm(x) for x in e2}
    if v[0] is not want or v[1] is not want or v[2] is want or v[3] is not False:
        rt.log('(%d, %r) == (%d, %r) ->' % (n1, e1, n2, e2), v[:4], 'reference', want)
        return '__eq__:wrong'
    if want and v[4] != v[5]:
        return '__hash__:equal-graphs-different-hash'
    return None


def chk_hash(n: int, edges: list, order: list) -> str | None:
    """The same graph given as two differently ordered edge lists."""
    g1 = mk(n, edges)
    perm = [edges[i] for i in order]
    g2 = mk(n, perm)
    fp = repr_fp(g2, n, edges, what='CouplingGraph')
    if fp:
        return fp
    v, e = call(lambda: (g1 == g2, hash(g1), hash(g2), len({g1, g2})))
    if e is not None:
        return raised_fp('__hash__', e)
    if v[0] is not True:
        return '__eq__:wrong'
    if v[1] != v[2] or v[3] != 1:
        rt.log('CouplingGraph(%r) == CouplingGraph(%r) but hashes differ / both stay in one set' % (edges, perm))
        return '__hash__:equal-graphs-different-hash'
    return None


def chk_ctor(n: int, edges: list, nq: int | None) -> str | None:
    """edges: orientation as given (a, b) possibly a > b. nq: the num_qudits argument."""
    v, e = call(lambda: CouplingGraph(list(edges), nq) if nq is not None else CouplingGraph(list(edges)))
    top = max([max(x) for x in edges] + [-1]) + 1
    if nq == 0 and not edges:
        return None         # the graph without qudits: outside the domain (n >= 1)
    bad = nq is not None and (nq < 0 or nq < top)
    if bad:
        if e is None:
            return 'CouplingGraph:bad-num_qudits-accepted'
        if not isinstance(e, ValueError):
            return raised_fp('CouplingGraph', e)
        return None
    if e is not None:
        return raised_fp('CouplingGraph', e)
    return repr_fp(v, nq if nq is not None else top, edges, what='CouplingGraph')


def topo_edges(kind: str, a: int, b: int) -> tuple[int, list]:
    if kind == 'all_to_all':
        return a, [(i, j) for i in range(a) for j in range(a) if i < j]
    if kind == 'linear':
        return a, [(i, i + 1) for i in range(a - 1)]
    if kind == 'ring':
        return a, sorted({norm((i, (i + 1) % a)) for i in range(a)})
    if kind == 'star':
        return a, [(0, i) for i in range(1, a)]
    if kind == 'grid':
        es = []
        for r in range(a):
            for c in range(b):
                if c + 1 < b:
                    es.append((r * b + c, r * b + c + 1))
                if r + 1 < a:
                    es.append((r * b + c, (r + 1) * b + c))
        return a * b, es
    raise AssertionError(kind)


def chk_topo(kind: str, a: int, b: int) -> str | None:
    fn = getattr(CouplingGraph, kind)
    v, e = call(fn, a, b) if kind == 'grid' else call(fn, a)
    if e is not None:
        return raised_fp(kind, e)
    n, es = topo_edges(kind, a, b)
    fp = repr_fp(v, n, es, what=kind)
    if fp:
        rt.log('%s(%d%s) ->' % (kind, a, ', %d' % b if kind == 'grid' else ''), v, 'num_qudits', v.num_qudits)
    return fp


def chk_qpu(n: int, edges: list, remote: list, part: str) -> str | None:
    """QPUs = connected components of the graph without its remote edges."""
    g = mk(n, edges, remote)
    rem = {norm(x) for x in remote}
    local = [x for x in edges if norm(x) not in rem]
    comps = components(n, adj_of(n, local))
    m, e = call(g.get_qpu_to_qudit_map)
    if e is not None:
        return raised_fp('get_qpu_to_qudit_map', e)
    flat = [q for qpu in m for q in qpu]
    if sorted(flat) != list(range(n)) or {frozenset(x) for x in m} != set(comps):
        rt.log('get_qpu_to_qudit_map ->', m, 'reference components', [sorted(c) for c in comps])
        return 'get_qpu_to_qudit_map:wrong'
    if part == 'map':
        v, e = call(lambda: (g.qpu_count(), g.is_distributed()))
        if e is not None:
            return raised_fp('qpu_count', e)
        if v[0] != len(comps):
            return 'qpu_count:wrong'
        if v[1] is not (len(rem) > 0):
            return 'is_distributed:wrong'
        return None
    where = {q: i for i, qpu in enumerate(m) for q in qpu}
    if part == 'q2q':
        v, e = call(g.get_qudit_to_qpu_map)
        if e is not None:
            return raised_fp('get_qudit_to_qpu_map', e)
        if list(v) != [where[q] for q in range(n)]:
            rt.log('get_qpu_to_qudit_map ->', m, 'get_qudit_to_qpu_map ->', v, 'expected',
                   [where[q] for q in range(n)])
            return 'get_qudit_to_qpu_map:wrong'
        return None
    if part == 'conn':
        v, e = call(g.get_qpu_connectivity)
        if e is not None:
            return raised_fp('get_qpu_connectivity', e)
        want: list[set] = [set() for _ in m]
        for (a, b) in rem:
            want[where[a]].add(where[b])
            want[where[b]].add(where[a])
        if len(v) != len(m) or any(set(v[i]) - {i} != want[i] - {i} for i in range(len(m))):
            rt.log('get_qpu_to_qudit_map ->', m, 'remote', sorted(rem), 'get_qpu_connectivity ->', v,
                   'expected', want)
            return 'get_qpu_connectivity:wrong'
        return None
    if part == 'graphs':
        v, e = call(g.get_individual_qpu_graphs)
        if e is not None:
            return raised_fp('get_individual_qpu_graphs', e)
        if not rem:
            return None if (len(v) == 1 and v[0] == g) else 'get_individual_qpu_graphs:wrong'
        if len(v) != len(m):
            return 'get_individual_qpu_graphs:wrong'
        for qpu, sg in zip(m, v):
            r = {q: i for i, q in enumerate(qpu)}
            want_e = [norm((r[a], r[b])) for (a, b) in edges if a in r and b in r]
            fp = repr_fp(sg, len(qpu), want_e, what='get_individual_qpu_graphs')
            if fp == 'get_individual_qpu_graphs:weight-matrix':
                fp = None       # weights of a sub-QPU are not documented
            if fp:
                rt.log('qpu', qpu, '->', sg)
                return fp
        return None
    raise AssertionError(part)


# --------------------------------------------------------------------------- traced phase

class Src:
    """Hands out the symbolic booleans / integers of the entry function in a fixed order."""

    def __init__(self, bits: list, ints: list) -> None:
        self.bits, self.ints = bits, ints
        self.bi = self.ii = 0
        self.fixed = rt.SHARD.get('fixed', [])

    def bit(self) -> bool:
        i = self.bi
        self.bi += 1
        if i < len(self.fixed):
            return bool(self.fixed[i])
        return rt.B(self.bits[i])

    def skip_bit(self) -> None:
        self.bi += 1

    def int(self, lo: int, hi: int) -> int:
        x = self.ints[self.ii]
        self.ii += 1
        v = rt.P(x, lo, hi)
        assert v is not None
        return v

    def graph(self, n: int) -> list:
        return [p for p in all_pairs(n) if self.bit()]

    def graph3(self, n: int) -> tuple[list, list]:
        """absent / local / remote per pair (two booleans per pair, the second one only
        consulted for present edges)."""
        edges, remote = [], []
        for p in all_pairs(n):
            if self.bit():
                edges.append(p)
                if self.bit():
                    remote.append(p)
            else:
                self.skip_bit()
        return edges, remote

    def location(self, n: int, m: int) -> list:
        """m distinct qudits out of n in any order (index among the not yet chosen ones)."""
        rest = list(range(n))
        return [rest.pop(self.int(0, len(rest) - 1)) for _ in range(m)]

    def perm(self, m: int) -> list:
        return self.location(m, m)

    def subset(self, n: int, lo: int = 1) -> list:
        """a subset of [n] with at least lo elements, as increasing list (code 0..2^n-1)."""
        codes = [c for c in range(2 ** n) if bin(c).count('1') >= lo]
        c = codes[self.int(0, len(codes) - 1)]
        return [q for q in range(n) if c >> q & 1]

    def increasing(self, k: int, hi: int) -> list:
        """k strictly increasing ints in [0, hi]."""
        out: list = []
        for j in range(k):
            lo = out[-1] + 1 if out else 0
            out.append(self.int(lo, hi - (k - 1 - j)))
        return out


def build(fam: str, S: dict, s: Src) -> tuple:
    """Returns (check function, concrete args)."""
    n = S['n'] if 'n' in S else (s.int(S['nlo'], S['nhi']) if 'nlo' in S else 0)
    if fam == 'basic':
        return chk_basic, (n, s.graph(n))
    if fam == 'vertex':
        edges = s.graph(n)
        return chk_vertex, (n, edges, s.int(0, n - 1))
    if fam == 'conn':
        return chk_conn, (n, s.graph(n))
    if fam == 'linear':
        return chk_linear, (n, s.graph(n))
    if fam == 'deg':
        return chk_deg, (n, s.graph(n))
    if fam == 'apsp':
        return chk_apsp, (n, s.graph(n), False)
    if fam == 'apsp_diag':
        return chk_apsp, (n, s.graph(n), True)
    if fam == 'apsp_w':
        edges, remote = s.graph3(n)
        over = {}
        if edges:
            i = s.int(-1, len(edges) - 1)             # which edge gets an override (-1: none)
            if i >= 0:
                over[edges[i]] = [0.5, 3.0, 250.0][s.int(0, 2)]
        return chk_apsp_w, (n, edges, remote, over)
    if fam in ('without', 'nbr', 'spt'):
        edges = s.graph(n)
        q = s.int(0, n - 1)
        return {'without': chk_without, 'nbr': chk_nbr, 'spt': chk_spt}[fam], (n, edges, q)
    if fam == 'span':
        edges = s.graph(n)
        if not rt.nt(is_connected, n, adj_of(n, edges)):
            return None, ()
        return chk_span, (n, edges, s.int(0, n - 1))
    if fam == 'ksub':
        edges = s.graph(n)
        return chk_ksub, (n, edges, s.int(-1, n + 1))
    if fam == 'ksub_sparse':
        N, E = S['N'], S['E']
        if 'first' in S:                       # shard: exactly E edges, first pair index in a range
            ne = E
            i0 = s.int(S['first'][0], S['first'][1])
            idx = [i0] + [i0 + 1 + j for j in s.increasing(ne - 1, N * (N - 1) // 2 - 2 - i0)]
        else:
            ne = s.int(0, E)
            idx = s.increasing(ne, N * (N - 1) // 2 - 1)
        prs = all_pairs(N)
        return chk_ksub, (N, [prs[i] for i in idx], s.int(1, S['kmax']))
    if fam == 'subgraph':
        edges = s.graph(n)
        m = s.int(S.get('mlo', 1), min(S.get('mhi', n), n))
        loc = s.location(n, m)
        ren = None
        if s.int(0, 1) == 1:
            vals = s.perm(m)
            ren = {q: vals[i] for i, q in enumerate(sorted(loc))}
        return chk_subgraph, (n, edges, loc, ren)
    if fam == 'subgraph_all':
        edges = s.graph(n)
        return chk_subgraph_all, (n, edges, s.subset(n))
    if fam == 'induced':
        edges = s.graph(n)
        m = s.int(2, min(S.get('mhi', n), n))
        return chk_induced, (n, edges, s.location(n, m))
    if fam == 'relabel':
        m, L = S['m'], S['L']
        labels = s.increasing(m, L)
        edges = [(labels[a], labels[b]) for (a, b) in all_pairs(m) if s.bit()]
        if not edges:
            return None, ()
        ren = None
        if not S.get('noren') and s.int(0, 1) == 1:
            vs = sorted({q for x in edges for q in x})
            vals = s.perm(len(vs))
            ren = {q: vals[i] for i, q in enumerate(vs)}
        return chk_relabel, (labels, edges, ren)
    if fam == 'embed':
        n2 = S['n2'] if 'n2' in S else s.int(S['n2lo'], S['n2hi'])
        n1 = S['n1'] if 'n1' in S else s.int(S['n1lo'], S['n1hi'])
        e2 = s.graph(n2)
        e1 = s.graph(n1)
        return chk_embed, (n1, e1, n2, e2)
    if fam == 'eq':
        n2 = S['n2'] if 'n2' in S else s.int(S['n2lo'], S['n2hi'])
        n1 = S['n1'] if 'n1' in S else s.int(S['n1lo'], S['n1hi'])
        e2 = s.graph(n2)
        e1 = s.graph(n1)
        return chk_eq, (n1, e1, n2, e2)
    if fam == 'hash':
        edges = s.graph(n)
        return chk_hash, (n, edges, s.perm(len(edges)))
    if fam == 'ctor':
        edges = []
        for p in all_pairs(n):          # absent / (a, b) / (b, a)
            if s.bit():
                edges.append((p[1], p[0]) if s.bit() else p)
            else:
                s.skip_bit()
        nq = s.int(-2, n + 1)           # -2 encodes "argument omitted"
        if nq == -2 and not edges:
            return None, ()
        return chk_ctor, (n, edges, None if nq == -2 else nq)
    if fam == 'matching':
        edges, ignore = [], []
        orient = S.get('orient', True)
        for p in all_pairs(n):          # absent / usable / ignored (as (a,b) or as (b,a))
            if s.bit():
                edges.append(p)
                if s.bit():
                    ignore.append((p[1], p[0]) if orient and s.bit() else p)
                    if not orient:
                        s.skip_bit()
                else:
                    s.skip_bit()
            else:
                s.skip_bit()
                s.skip_bit()
        return chk_matching, (n, edges, ignore, None)
    if fam == 'matching_rand':
        edges = s.graph(n)
        return chk_matching, (n, edges, [], s.perm(len(edges)))
    if fam == 'topo':
        kinds = ['all_to_all', 'linear', 'ring', 'star', 'grid']
        kind = kinds[s.int(0, 4)]
        if kind == 'grid':
            return chk_topo, (kind, s.int(1, S['gmax']), s.int(1, S['gmax']))
        return chk_topo, (kind, s.int(2 if kind == 'ring' else 1, S['nmax']), 0)
    if fam.startswith('qpu_'):
        edges, remote = s.graph3(n)
        return chk_qpu, (n, edges, remote, fam[4:])
    raise AssertionError('unknown family ' + fam)


@rt.natively
def run(bits: list, ints: list) -> bool:
    rt.begin()
    S = rt.SHARD
    fn, args = build(S['fam'], S, Src(bits, ints))
    if fn is None:
        return True          # outside the documented domain of this method (stated in BOUNDS)
    if rt.CONCRETE:
        rt.log('family', S['fam'], 'inputs', args)
    fps = rt.nt(fn, *args)
    rt.reach()
    for fp in (fps if isinstance(fps, list) else [fps]):
        if fp is not None and not rt.fail(fp):
            return False
    return True


# number of booleans / integers the entry function of a shard needs
def arity(S: dict) -> tuple[int, int]:
    nb, ni = arity0(S)
    return nb, ni + (1 if 'nlo' in S else 0)


def arity0(S: dict) -> tuple[int, int]:
    fam = S['fam']
    n = S.get('n', S.get('nhi', 0))
    p = n * (n - 1) // 2
    if fam in ('conn', 'linear', 'deg', 'apsp', 'apsp_diag', 'basic'):
        return p, 0
    if fam == 'apsp_w':
        return 2 * p, 2
    if fam in ('without', 'nbr', 'spt', 'span', 'ksub', 'vertex'):
        return p, 1
    if fam == 'ksub_sparse':
        return 0, S['E'] + 2
    if fam == 'subgraph':
        return p, 2 + 2 * min(S.get('mhi', n), n)
    if fam == 'subgraph_all':
        return p, 1
    if fam == 'induced':
        return p, 1 + min(S.get('mhi', n), n)
    if fam == 'relabel':
        m = S['m']
        return m * (m - 1) // 2, 2 * m + 1
    if fam in ('embed', 'eq'):
        n1, n2 = S.get('n1', S.get('n1hi')), S.get('n2', S.get('n2hi'))
        return n1 * (n1 - 1) // 2 + n2 * (n2 - 1) // 2, ('n1lo' in S) + ('n2lo' in S)
    if fam in ('hash', 'matching_rand'):
        return p, p
    if fam == 'ctor':
        return 2 * p, 1
    if fam == 'matching':
        return 3 * p, 0
    if fam == 'topo':
        return 0, 3
    if fam.startswith('qpu_'):
        return 2 * p, 0
    raise AssertionError(fam)
