"""C08 core: build a tagged input circuit from concrete ints, run one real partitioning pass,
evaluate the independent oracle. Everything here runs on concrete values (the symbolic
integers are split by the entry functions in harness/C08.py before they get here)."""
from __future__ import annotations

from typing import Any

from bqskit.compiler.machine import MachineModel
from bqskit.compiler.passdata import PassData
from bqskit.ir.circuit import Circuit
from bqskit.ir.gates import BarrierPlaceholder
from bqskit.ir.gates import MeasurementPlaceholder
from bqskit.ir.gates import Reset
from bqskit.ir.gates.circuitgate import CircuitGate
from bqskit.ir.operation import Operation
from vf.circ_oracle import TG, Viol, check_invariant, flat_of

BARRIER_LIKE = (BarrierPlaceholder, MeasurementPlaceholder, Reset)

# kind code -> (family, arity)
KINDS = {
    1: ('g', 1), 2: ('g', 2), 3: ('g', 3),
    4: ('blk', 1),      # already blocked: CircuitGate [A(0) B(0)] (A parametrised)
    5: ('blk', 2),      # already blocked: CircuitGate [A(0,1) B(1)] (both parametrised)
    6: ('bar', 1), 7: ('bar', 2), 8: ('bar', 3),
    9: ('meas', 1), 10: ('meas', 2),
    11: ('reset', 1),
    12: ('bar', 6),     # full-width barrier of the early-flush family
}

PARTITIONERS = ('quick', 'scan', 'greedy', 'cluster', 'single')


def arity_of(kind: int) -> int:
    return KINDS[kind][1]


def is_barrier_like(op: Operation) -> bool:
    return isinstance(op.gate, BARRIER_LIKE)


class Tags:
    def __init__(self) -> None:
        self.n = 0

    def new(self) -> int:
        self.n += 1
        return self.n


def _tg(tags: Tags, arity: int) -> tuple[TG, list[float]]:
    """A fresh tagged gate; 1- and 2-qudit gates carry one parameter with a distinct value."""
    t = tags.new()
    if arity <= 2:
        return TG(t, arity, (), 1), [float(t) + (0.5 if arity == 2 else 0.0)]
    return TG(t, arity), []


def make_op(kind: int, loc: list[int], tags: Tags) -> Operation:
    fam, ar = KINDS[kind]
    assert ar == len(loc)
    if fam == 'g':
        g, ps = _tg(tags, ar)
        return Operation(g, loc, ps)
    if fam == 'blk':
        sub = Circuit(ar)
        if ar == 1:
            g, ps = _tg(tags, 1)
            sub.append_gate(g, [0], ps)
            sub.append_gate(TG(tags.new(), 1), [0])
        else:
            g, ps = _tg(tags, 2)
            sub.append_gate(g, [0, 1], ps)
            g, ps = _tg(tags, 1)
            sub.append_gate(g, [1], ps)
        return Operation(CircuitGate(sub, True), loc, list(sub.params))
    if fam == 'bar':
        return Operation(BarrierPlaceholder(ar), loc)
    if fam == 'meas':
        regs = [('c', ar)]
        return Operation(MeasurementPlaceholder(regs, {q: ('c', i) for i, q in enumerate(loc)}), loc)
    if fam == 'reset':
        return Operation(Reset(), loc)
    raise AssertionError(kind)


def build(W: int, specs: list[tuple[int, list[int]]], pop: int = -1) -> Circuit:
    """append every (kind, location) in order; optionally pop the pop-th operation (in
    iteration order) afterwards, which leaves a gap (a circuit that is not left-justified)."""
    tags = Tags()
    c = Circuit(W)
    for kind, loc in specs:
        c.append(make_op(kind, list(loc), tags))
    if pop >= 0:
        pts = [(cy, op.location[0]) for cy, op in c.operations_with_cycles()]
        c.pop(pts[pop])
    return c


def make_data(W: int) -> PassData:
    d = PassData.__new__(PassData)
    d._target = None            # never read by these passes
    d._error = 0.0
    d._model = MachineModel(W)
    d._placement = list(range(W))
    d._initial_mapping = list(range(W))
    d._final_mapping = list(range(W))
    d._data = {}
    d._seed = None
    return d


def drive(coro: Any) -> None:
    """Runs a pass coroutine that never awaits the runtime."""
    try:
        coro.send(None)
    except StopIteration:
        return
    raise Viol('pass-awaited-runtime')


class ScriptedRandint:
    """Stands in for numpy inside cluster.py: `np.random.randint(n)` draws follow a script.

    ClusteringPartitioner draws, for each of its `num_points` rounds, 4 x (cycle, qudit) until
    the point is occupied. The script holds `per_round` raw draws per round (draw j of a round
    uses entry j % per_round); a raw draw r addresses operation `ops[r % len(ops)]` of the
    circuit *as it is at that moment* (iteration order) through its (k % arity)-th qudit, so
    the re-draw loop for idle points never spins. Every operation of the circuit is
    addressable by every scripted draw (raw draws range over the initial number of
    operations, which never grows)."""

    def __init__(self, circuit: Circuit, script: list[int], per_round: int = 2) -> None:
        self.circuit = circuit
        self.script = script
        self.per_round = per_round
        self.k = 0
        self.pending: int | None = None
        self.random = self

    def randint(self, n: int) -> int:
        if self.pending is not None:
            q = self.pending
            self.pending = None
            assert 0 <= q < n
            return q
        pts = [(cy, op) for cy, op in self.circuit.operations_with_cycles()]
        i = (self.k // 4) * self.per_round + (self.k % 4) % self.per_round
        r = self.script[i % len(self.script)]
        cy, op = pts[r % len(pts)]
        self.pending = op.location[self.k % len(op.location)]
        self.k += 1
        assert 0 <= cy < n
        return cy


class SpyCircuit(Circuit):
    """Observation only: counts `get_slice` calls made while the main loop of
    QuickPartitioner.run is still iterating over the input (= the `num_closed >= 5` early
    flush of pending bins happened)."""

    _vf_depth = 0
    _vf_early = 0

    def operations_with_cycles(self, *a: Any, **k: Any) -> Any:
        self._vf_depth += 1
        try:
            for x in super().operations_with_cycles(*a, **k):
                yield x
        finally:
            self._vf_depth -= 1

    def get_slice(self, points: Any) -> Circuit:
        if self._vf_depth > 0:
            self._vf_early += 1
        return super().get_slice(points)


def run_pass(which: str, circ: Circuit, bs: int, script: list[int] | None = None, points: int = 1) -> None:
    """Runs the real pass on `circ` in place."""
    import warnings
    import bqskit.passes.partitioning.quick as quick
    data = make_data(circ.num_qudits)
    with warnings.catch_warnings():
        warnings.simplefilter('ignore')
        if which == 'quick':
            quick.Bin.id = 0
            drive(quick.QuickPartitioner(bs).run(circ, data))
        elif which == 'scan':
            from bqskit.passes.partitioning.scan import ScanPartitioner
            drive(ScanPartitioner(bs).run(circ, data))
        elif which == 'greedy':
            from bqskit.passes.partitioning.greedy import GreedyPartitioner
            drive(GreedyPartitioner(bs).run(circ, data))
        elif which == 'cluster':
            import bqskit.passes.partitioning.cluster as cluster
            saved = cluster.np
            cluster.np = ScriptedRandint(circ, list(script or [0]))
            try:
                drive(cluster.ClusteringPartitioner(bs, points).run(circ, data))
            finally:
                cluster.np = saved
        elif which == 'single':
            from bqskit.passes.partitioning.single import GroupSingleQuditGatePass
            drive(GroupSingleQuditGatePass().run(circ, data))
        elif which == 'extend':
            from bqskit.passes.util.extend import ExtendBlockSizePass
            drive(ExtendBlockSizePass(bs).run(circ, data))
        else:
            raise AssertionError(which)


# ----------------------------------------------------------------------------- oracle

def _leaves(circ: Circuit) -> list[tuple[Any, tuple]]:
    """(identity, params) of every elementary operation, blocks expanded, via flat timelines."""
    out = []
    for line in flat_of(circ):
        for (tag, j, ps) in line:
            if j == 0:
                out.append((tag, tuple(ps)))
    return sorted(out, key=repr)


def _has_barrier_inside(gate: CircuitGate) -> bool:
    for op in gate._circuit:
        if is_barrier_like(op):
            return True
        if isinstance(op.gate, CircuitGate) and _has_barrier_inside(op.gate):
            return True
    return False


class Snapshot:
    """What the oracle needs from the input, taken before the pass runs."""

    def __init__(self, circ: Circuit) -> None:
        self.W = circ.num_qudits
        self.flat = flat_of(circ)
        self.leaves = _leaves(circ)
        self.nops = circ.num_operations
        self.top = [(tuple(op.location), op.gate, tuple(op.params)) for op in circ]
        self.blocks_in = [g for (_, g, _) in self.top if isinstance(g, CircuitGate)]
        self.nbar = sum(1 for (_, g, _) in self.top if isinstance(g, BARRIER_LIKE))


def oracle(which: str, snap: Snapshot, out: Circuit, bs: int, extend_min: int | None = None) -> str | None:
    """None when the output is a regrouping of the input, else a fingerprint."""
    if out.num_qudits != snap.W:
        return 'width-changed'
    # 1. representation invariant of the output (and of every block body)
    try:
        check_invariant(out, which)
    except Viol as v:
        return 'invariant:' + v.fp
    except Exception as e:  # noqa
        return 'read-api-raised:' + type(e).__name__
    # 2. barrier-like operations stay top-level operations of the output
    nbar = 0
    for op in out:
        if is_barrier_like(op):
            nbar += 1
        elif isinstance(op.gate, CircuitGate) and _has_barrier_inside(op.gate):
            return 'barrier-absorbed'
    if nbar != snap.nbar:
        return 'barrier-count'
    # 3. block widths
    for op in out:
        g = op.gate
        if not isinstance(g, CircuitGate):
            continue
        if len(op.location) != g._circuit.num_qudits:
            return 'block-location-width'
        if which == 'single':
            # groups only single-qudit gates: a block is 1 wide or was already in the input
            if g.num_qudits != 1 and not any(g is b or g == b for b in snap.blocks_in):
                return 'single:multi-qudit-block'
            continue
        limit = bs if extend_min is None else max(bs, extend_min)
        widest = max((o.num_qudits for o in g._circuit), default=0)
        if g.num_qudits > limit and g.num_qudits != widest:
            return 'block-too-wide'
        if extend_min is not None and g.num_qudits < min(extend_min, snap.W):
            return 'extend:block-too-small'
        try:
            check_invariant(g._circuit, which + ' block body')
        except Viol as v:
            return 'block-body-invariant:' + v.fp
    # 4. every original operation exactly once with unchanged parameters
    try:
        leaves = _leaves(out)
    except Exception as e:  # noqa
        return 'read-api-raised:' + type(e).__name__
    if leaves != snap.leaves:
        return 'operations-or-params-changed'
    # 5. same operation sequence on every qudit (harness expansion of the blocks) ...
    if flat_of(out) != snap.flat:
        return 'order'
    # ... and through BQSKit's own unfolding
    cp = out.copy()
    try:
        cp.unfold_all()
    except Exception as e:  # noqa
        return 'unfold_all-raised:' + type(e).__name__
    if any(isinstance(op.gate, CircuitGate) for op in cp):
        return 'unfold_all-left-a-block'
    if flat_of(cp) != snap.flat:
        return 'order-after-unfold_all'
    if cp.num_operations != len(snap.leaves):
        return 'unfolded-operation-count'
    return None


def scan_refusal_ok(snap: Snapshot, circ: Circuit, bs: int, e: Exception) -> bool:
    """ScanPartitioner documents (in its error text) that it cannot handle gates wider than
    the block size; such a refusal is accepted when the circuit is left untouched."""
    if not isinstance(e, RuntimeError) or 'cannot handle gates larger' not in str(e):
        return False
    if not any(len(loc) > bs for (loc, _, _) in snap.top):
        return False
    return flat_of(circ) == snap.flat and circ.num_operations == snap.nops


def check_case(which: str, W: int, specs: list, bs: int, pop: int = -1,
               script: list[int] | None = None, points: int = 1,
               then_extend: int | None = None, log: Any = None, spy: dict | None = None) -> str | None:
    """One concrete case end to end. Returns a fingerprint or None."""
    circ = build(W, specs, pop)
    if circ.num_operations == 0:
        return None
    if spy is not None:
        sc = SpyCircuit(W)
        sc.become(circ)
        circ = sc
    snap = Snapshot(circ)
    if log:
        log('input  ', repr(circ), [(cy, op) for cy, op in circ.operations_with_cycles()])
        log('input timelines', snap.flat)
    try:
        run_pass(which, circ, bs, script, points)
    except Viol as v:
        return '%s:%s' % (which, v.fp)
    except Exception as e:  # noqa
        if spy is not None:
            spy['early'] = circ._vf_early
        if which == 'scan' and scan_refusal_ok(snap, circ, bs, e):
            return None
        if log:
            log('pass raised', repr(e))
        # situation tag computed from the input only (keeps distinct defects apart)
        sit = ''
        if which != 'single' and bs > snap.W:
            sit = ':block-size-exceeds-width'
        elif which != 'single' and any(len(loc) > bs for (loc, _, _) in snap.top):
            sit = ':gate-wider-than-block'
        return '%s:raised:%s%s' % (which, type(e).__name__, sit)
    if log:
        log('output ', [(cy, op) for cy, op in circ.operations_with_cycles()])
        for cy, op in circ.operations_with_cycles():
            if isinstance(op.gate, CircuitGate):
                log('  block at', (cy, tuple(op.location)), 'params', list(op.params), 'body',
                    [(c2, o2) for c2, o2 in op.gate._circuit.operations_with_cycles()])
        try:
            log('output timelines', flat_of(circ))
        except Exception as e:  # noqa
            log('output timelines unreadable', repr(e))
    if spy is not None:
        spy['early'] = circ._vf_early
        if log:
            log('get_slice calls during the main loop (early flush):', circ._vf_early)
    fp = oracle(which, snap, circ, bs)
    if fp is not None:
        return '%s:%s' % (which, fp)
    if then_extend is not None:
        try:
            run_pass('extend', circ, then_extend)
        except Exception as e:  # noqa
            if log:
                log('extend raised', repr(e))
            return 'extend:raised:%s' % type(e).__name__
        if log:
            log('after extend', [(cy, op) for cy, op in circ.operations_with_cycles()])
        fp = oracle('extend', snap, circ, bs, then_extend)
        if fp is not None:
            return 'extend:%s' % fp
    return None
