"""C03 (partial) - search control of QSearch / LEAP and the layer generators.

What C03 states is a numerical fact (the optimiser reaches the target) and that half is outside this technique.
What the solver CAN decide is the pure-Python mechanism the property is anchored in:

(S) "search returns only when cost(candidate, target) < success_threshold": the real
    `QSearchSynthesisPass.synthesize` / `LEAPSynthesisPass.synthesize` run with the real Frontier, heuristic and
    layer generator; `Circuit.instantiate` and the cost generator are stubs, and the COST OF EVERY EVALUATED
    CANDIDATE IS AN UNBOUNDED SYMBOLIC INTEGER. z3 decides, for every cost assignment, that the returned circuit is
    one of the evaluated (instantiated-for-this-target) candidates; that it is below the threshold whenever some
    evaluated candidate was; otherwise that no evaluated candidate is cheaper and that the whole tree up to
    `max_layer` was evaluated (no candidate dropped).
(L) "layer generators derived from the gate set": for every coupling graph on <= 4 qudits (edge bits), qubits and
    qutrits, three target kinds, the initial layer has the target's width and radixes and the successors of a node
    extend it, on exactly the edges of the model's coupling graph, without touching the parent.
"""
from __future__ import annotations

from typing import Any

from vf import rt

PROPERTY = 'C03'
LEVEL = 'model_checking'
RULE = ('(S) one case = one outcome sequence of the comparisons made on the symbolic candidate costs during one real '
        'synthesize() run (pass x coupling graph x max_layer); (L) one case = (generator, width, radix, coupling graph, '
        'target kind); non-trivial = synthesize returned / successors were generated and the oracle was evaluated')
ENCODED = [
    'bqskit.passes.synthesis.qsearch:QSearchSynthesisPass.synthesize/_get_layer_gen',
    'bqskit.passes.synthesis.leap:LEAPSynthesisPass.synthesize/check_new_best/_get_layer_gen',
    'bqskit.passes.search.frontier:Frontier', 'bqskit.passes.search.heuristics.dijkstra:DijkstraHeuristic',
    'bqskit.passes.search.generators.simple:SimpleLayerGenerator', 'bqskit.passes.search.generators.fourparam:'
    'FourParamGenerator', 'bqskit.passes.search.generators.wide:WideLayerGenerator',
    'bqskit.passes.search.generators.single:SingleQuditLayerGenerator', 'bqskit.compiler.gateset:GateSet.'
    'build_mq_layer_generator/build_layer_generator',
]
ASSUMPTIONS = [
    '(S) Circuit.instantiate is a stub that marks the circuit as instantiated for the target and returns it; the cost '
    'generator is a stub returning the next symbolic integer (unbounded) - the native cost engine and the optimisers are '
    'outside the claim; costs are integers (no NaN)',
    '(S) get_runtime().map is an in-order inline executor; LEAP.check_leap_condition (scipy linregress) is a stub whose '
    'outcome is solver-chosen (any outcome the numeric rule can produce is producible)',
    '(S) heuristic = DijkstraHeuristic (A* calls the native cost)',
]
BOUNDS = {
    'quick': '(S) 2-3 qubits, coupling graphs with 1-2 edges, max_layer 1-2 (<=7 evaluated candidates), success '
             'threshold 10, costs unbounded integers; (L) every graph on 2-4 vertices, radix 2 and 3, 5 generators',
    'thorough': '(S) adds the triangle (13 candidates) and max_layer 3 on the 1-edge graph and the line; runs that evaluate '
                'more than 15 candidates (LEAP after a leap re-expands the prefix) are outside the bound',
}
OUTSIDE = ('whether the optimiser actually reaches the target (numerical half of C03); compile() end to end on unitary / '
           'state inputs; PermutationAwareSynthesis; A* heuristic; partial-solution storage; seeds')

THRESHOLD = 10


class _OutOfBound(BaseException):
    """The run evaluates more candidates than the obligation has symbolic costs for: the path lies outside the stated
    bound (LEAP re-adds the prefix circuit to the frontier after a leap, so a leaping run may evaluate a node twice)."""


class Cost:
    """A candidate's cost: a symbolic integer that can only be compared (formatting it for a log line - which the passes
    do eagerly with f-strings - must not drag the solver into int->str reasoning)."""

    TABLE: list = []     # the symbolic values live here, not in the instance: CrossHair deep-realises whatever an
    #                      f-string formats, and an instance attribute would be realised (one path per VALUE)

    def __init__(self, k: int) -> None:
        self.k = k

    @property
    def v(self) -> Any:
        return Cost.TABLE[self.k]

    @staticmethod
    def _o(o: Any) -> Any:
        if isinstance(o, Cost):
            return o.v
        if isinstance(o, float) and o == int(o):
            return int(o)
        return o

    def __lt__(self, o: Any) -> bool:
        return self.v < Cost._o(o)

    def __le__(self, o: Any) -> bool:
        return self.v <= Cost._o(o)

    def __gt__(self, o: Any) -> bool:
        return self.v > Cost._o(o)

    def __ge__(self, o: Any) -> bool:
        return self.v >= Cost._o(o)

    def __eq__(self, o: Any) -> bool:
        return self.v == Cost._o(o)

    def __hash__(self) -> int:
        return 0

    def __float__(self) -> float:
        return 0.0

    def __format__(self, spec: str) -> str:
        return '<cost>'

    def __repr__(self) -> str:
        return '<cost>'


def _graph_edges(n: int, bits: list) -> list:
    pairs = [(a, b) for a in range(n) for b in range(a + 1, n)]
    return [p for p, bit in zip(pairs, bits) if bit]


def _preimport() -> None:
    import bqskit.passes.synthesis.leap  # noqa: F401  (importing under CrossHair's tracer costs a minute)
    import bqskit.passes.synthesis.qsearch  # noqa: F401
    import bqskit.compiler.machine  # noqa: F401
    import bqskit.compiler.passdata  # noqa: F401


def _search_body(c0: int, c1: int, c2: int, c3: int, c4: int, c5: int, c6: int, c7: int, c8: int, c9: int, c10: int,
                 c11: int, c12: int, c13: int, c14: int, l0: bool, l1: bool, l2: bool, l3: bool) -> bool:
    import bqskit.passes.synthesis.leap as LM
    import bqskit.passes.synthesis.qsearch as QM
    from bqskit.compiler.machine import MachineModel
    from bqskit.compiler.passdata import PassData
    from bqskit.ir.circuit import Circuit
    from bqskit.ir.opt.cost.generator import CostFunctionGenerator
    from bqskit.passes.search.generators.simple import SimpleLayerGenerator
    from bqskit.passes.search.heuristics.dijkstra import DijkstraHeuristic
    from bqskit.qis.graph import CouplingGraph
    from bqskit.qis.unitary.unitarymatrix import UnitaryMatrix
    rt.begin()
    import logging
    logging.disable(logging.CRITICAL)      # LogRecord reads time.time(), which CrossHair makes symbolic
    S = rt.SHARD
    which, n, edges, L = S['pass'], S['n'], [tuple(e) for e in S['edges']], S['max_layer']
    costs = [c0, c1, c2, c3, c4, c5, c6, c7, c8, c9, c10, c11, c12, c13, c14]
    leaps = [l0, l1, l2, l3]
    Cost.TABLE = costs
    evals: list = []
    leap_calls: list = []
    target = rt.nt(UnitaryMatrix.identity, 2 ** n)

    class StubCost(CostFunctionGenerator):
        def gen_cost(self, circuit: Any, tgt: Any) -> Any:
            raise AssertionError('gen_cost on the stub')

        def calc_cost(self, circuit: Any, tgt: Any) -> Any:
            if getattr(circuit, '_vf_inst', None) is not tgt or tgt is not target:
                raise AssertionError('cost measured on a circuit that was not instantiated for this target')
            evals.append(circuit)
            if len(evals) > len(costs):
                raise _OutOfBound()
            return Cost(len(evals) - 1)

    class NativeGen(SimpleLayerGenerator):
        """The real SimpleLayerGenerator, its (all-concrete) work run natively."""

        def gen_initial_layer(self, tgt: Any, data: Any) -> Any:
            return rt.nt(SimpleLayerGenerator.gen_initial_layer, self, tgt, data)

        def gen_successors(self, circuit: Any, data: Any) -> Any:
            return rt.nt(SimpleLayerGenerator.gen_successors, self, circuit, data)

    class FakeRuntime:
        async def map(self, fn: Any, seq: Any, **kw: Any) -> list:
            return [fn(x, **kw) for x in seq]

    def stub_instantiate(self: Any, target: Any = None, **kw: Any) -> Any:
        self._vf_inst = target
        return self

    def stub_leap(self: Any, new_layer: int, best_dist: Any, best_layers: list, best_dists: list,
                  last_prefix_layer: int) -> bool:
        best_layers.append(new_layer)
        best_dists.append(best_dist)
        k = len(leap_calls)
        leap_calls.append(new_layer)
        if k >= len(leaps):
            return False
        return bool(leaps[k]) if rt.CONCRETE else (True if leaps[k] else False)

    def mk() -> Any:
        data = PassData(Circuit(n))
        data.model = MachineModel(n, CouplingGraph(edges, n))
        kw = dict(heuristic_function=DijkstraHeuristic(), layer_generator=NativeGen(), success_threshold=float(THRESHOLD),
                  cost=StubCost(), max_layer=L, instantiate_options={})
        p = QM.QSearchSynthesisPass(**kw) if which == 'qsearch' else LM.LEAPSynthesisPass(**kw)
        return data, p
    data, p = rt.nt(mk)
    saved = (Circuit.instantiate, QM.get_runtime, LM.get_runtime, LM.LEAPSynthesisPass.check_leap_condition)
    Circuit.instantiate = stub_instantiate
    QM.get_runtime = LM.get_runtime = lambda: FakeRuntime()
    LM.LEAPSynthesisPass.check_leap_condition = stub_leap
    try:
        try:
            coro = p.synthesize(target, data)
            try:
                coro.send(None)
                raise AssertionError('synthesize suspended on the inline runtime')
            except StopIteration as s:
                res = s.value
        except _OutOfBound:
            return True        # outside the bound (more than 15 evaluated candidates); not counted as reached
        except Exception as ex:
            rt.reach()
            if rt.CONCRETE:
                rt.log('raised', repr(ex))
            return rt.fail('search:%s:raises-%s' % (which, type(ex).__name__))
    finally:
        Circuit.instantiate, QM.get_runtime, LM.get_runtime, LM.LEAPSynthesisPass.check_leap_condition = saved
    rt.reach()
    used = costs[:len(evals)]
    if rt.CONCRETE:
        rt.log('pass', which, 'qudits', n, 'edges', edges, 'max_layer', L, 'threshold', THRESHOLD)
        rt.log('costs in evaluation order', [int(c) for c in used], 'leap decisions', [bool(x) for x in leaps[:len(leap_calls)]])
        rt.log('returned candidate #', [i for i, c in enumerate(evals) if c is res], 'ops', res.num_operations)
    idx = [i for i, c in enumerate(evals) if c is res]
    if len(idx) != 1:
        return rt.fail('search:%s:returned-circuit-is-not-an-evaluated-candidate' % which)
    rc = used[idx[0]]
    if res.num_qudits != n:
        return rt.fail('search:%s:returned-width' % which)
    if rt.nt(lambda: max(sum(1 for op in c if op.num_qudits > 1) for c in evals)) > L:
        if True:
            return rt.fail('search:%s:evaluated-a-candidate-deeper-than-max_layer' % which)
    if rc < THRESHOLD:
        # success: nothing may have been evaluated after it (it is returned at once)
        if idx[0] != len(evals) - 1:
            return rt.fail('search:%s:kept-searching-after-success' % which)
        return True
    # failure: no evaluated candidate may have been good enough, none cheaper, and nothing dropped
    for c in used:
        if c < THRESHOLD:
            return rt.fail('search:%s:returned-failing-circuit-although-a-candidate-succeeded' % which)
    for c in used:
        if c < rc:
            return rt.fail('search:%s:returned-circuit-is-not-the-best-evaluated' % which)
    if not any(leaps[:len(leap_calls)]) or which == 'qsearch':
        e = len(edges)
        full = sum(e ** k for k in range(L + 1))
        if len(evals) != full:
            return rt.fail('search:%s:gave-up-before-the-tree-was-exhausted' % which)
    return True


def search(c0: int, c1: int, c2: int, c3: int, c4: int, c5: int, c6: int, c7: int, c8: int, c9: int, c10: int,
           c11: int, c12: int, c13: int, c14: int, l0: bool, l1: bool, l2: bool, l3: bool) -> bool:
    """
    post: _
    """
    rt.nt(_preimport)
    return _search_body(c0, c1, c2, c3, c4, c5, c6, c7, c8, c9, c10, c11, c12, c13, c14, l0, l1, l2, l3)


GENS = ('simple', 'simple-cz-2sq', 'fourparam', 'gateset-default', 'wide')
TARGETS = ('unitary', 'state', 'system')


@rt.natively
def _layer_body(g: int, nq: int, rx: int, tk: int, e01: bool, e02: bool, e03: bool, e12: bool, e13: bool, e23: bool) -> bool:
    rt.begin()
    gen_name = GENS[rt.P(g, 0, len(GENS) - 1)]
    n = rt.P(nq, 2, int(rt.SHARD.get('max_n', 4)))
    radix = rt.P(rx, 2, 3)
    tkind = TARGETS[rt.P(tk, 0, 2)]
    pairs = [(a, b) for a in range(n) for b in range(a + 1, n)]
    allbits = {(0, 1): e01, (0, 2): e02, (0, 3): e03, (1, 2): e12, (1, 3): e13, (2, 3): e23}
    edges = [p for p in pairs if rt.B(allbits[p])]
    if radix == 3 and (n > 3 or gen_name in ('fourparam', 'wide')):
        return True          # FourParam / IToffoli are qubit-only; 3^4 is beyond the stated bound

    def run() -> 'str | None':
        import numpy as np
        from bqskit.compiler.gateset import GateSet
        from bqskit.compiler.machine import MachineModel
        from bqskit.compiler.passdata import PassData
        from bqskit.ir.circuit import Circuit
        from bqskit.ir.gates import CNOTGate, CSUMGate, CZGate, RZGate, SqrtXGate, U3Gate
        from bqskit.passes.search.generators import FourParamGenerator, SimpleLayerGenerator, WideLayerGenerator
        from bqskit.qis.graph import CouplingGraph
        from bqskit.qis.state.state import StateVector
        from bqskit.qis.state.system import StateSystem
        from bqskit.qis.unitary.unitarymatrix import UnitaryMatrix
        radixes = [radix] * n
        dim = radix ** n
        model = MachineModel(n, CouplingGraph(edges, n), radixes=radixes) if radix == 3 else \
            MachineModel(n, CouplingGraph(edges, n))
        data = PassData(Circuit(n, radixes))
        data.model = model
        if tkind == 'unitary':
            target: Any = UnitaryMatrix.identity(dim, radixes)
        elif tkind == 'state':
            v = np.zeros(dim, dtype=complex)
            v[dim - 1] = 1
            target = StateVector(v, radixes)
        else:
            v0, v1 = np.zeros(dim, dtype=complex), np.zeros(dim, dtype=complex)
            v0[0], v1[1] = 1, 1
            target = StateSystem({StateVector(v0, radixes): StateVector(v1, radixes)})
        if gen_name == 'simple':
            gen: Any = SimpleLayerGenerator() if radix == 2 else SimpleLayerGenerator(
                CSUMGate(), model.gate_set.get_general_sq_gate())
        elif gen_name == 'simple-cz-2sq':
            gen = SimpleLayerGenerator(CZGate(), RZGate(), SqrtXGate()) if radix == 2 else None
        elif gen_name == 'fourparam':
            gen = FourParamGenerator()
        elif gen_name == 'wide':
            gen = WideLayerGenerator()
        else:
            gen = model.gate_set.build_mq_layer_generator()
        if gen is None:
            return None
        wide = gen_name == 'wide'
        init = gen.gen_initial_layer(target, data)
        if init.num_qudits != n or tuple(init.radixes) != tuple(radixes):
            return 'layer:%s:initial-layer-width-or-radixes' % gen_name
        if any(op.num_qudits > 1 for op in init):
            return 'layer:%s:initial-layer-has-entanglers' % gen_name
        edge_set = {(min(a, b), max(a, b)) for a, b in edges}
        level = [init]
        for depth in range(2):
            nxt = []
            for parent in level[:2]:
                def lines(c: Any) -> list:
                    tl: list = [[] for _ in range(n)]
                    for cyc, op in c.operations_with_cycles():
                        for q in op.location:
                            tl[q].append((op.gate, tuple(op.location)))
                    return tl
                before = lines(parent)
                succ = gen.gen_successors(parent, data)
                if lines(parent) != before:
                    return 'layer:%s:parent-modified' % gen_name
                used = []
                for s in succ:
                    if s is parent:
                        return 'layer:%s:successor-is-the-parent-object' % gen_name
                    if s.num_qudits != n or tuple(s.radixes) != tuple(radixes):
                        return 'layer:%s:successor-width-or-radixes' % gen_name
                    after = lines(s)
                    if any(after[q][:len(before[q])] != before[q] for q in range(n)):
                        return 'layer:%s:successor-does-not-extend-parent' % gen_name
                    new = []
                    for q in range(n):
                        for (gt, l1) in after[q][len(before[q]):]:
                            if l1[0] == q:
                                new.append((gt, l1))
                    multi = [loc for (gt, loc) in new if len(loc) > 1]
                    if len(multi) != 1:
                        return 'layer:%s:successor-adds-%d-entanglers' % (gen_name, len(multi))
                    loc = multi[0]
                    if not wide:
                        if len(loc) != 2 or (min(loc), max(loc)) not in edge_set:
                            return 'layer:%s:entangler-on-uncoupled-qudits' % gen_name
                        used.append((min(loc), max(loc)))
                    else:
                        sub = {(min(a, b), max(a, b)) for a in loc for b in loc if a != b}
                        seen, todo = {loc[0]}, [loc[0]]
                        while todo:
                            x = todo.pop()
                            for y in loc:
                                if y not in seen and (min(x, y), max(x, y)) in edge_set & sub:
                                    seen.add(y)
                                    todo.append(y)
                        if len(seen) != len(loc):
                            return 'layer:%s:wide-gate-on-disconnected-qudits' % gen_name
                    for (gt, l1) in new:
                        if len(l1) == 1 and l1[0] not in loc:
                            return 'layer:%s:single-qudit-gate-off-the-new-entangler' % gen_name
                    if gen_name.startswith('simple') and {l1[0] for (gt, l1) in new if len(l1) == 1} != set(loc):
                        return 'layer:%s:an-entangled-qudit-got-no-single-qudit-gate' % gen_name
                    nxt.append(s)
                if not wide:
                    # every coupled pair is offered; a pair may be left out only right after itself was used
                    lastc = [(cyc, tuple(op.location)) for cyc, op in parent.operations_with_cycles() if op.num_qudits > 1]
                    lastp = (min(lastc[-1][1]), max(lastc[-1][1])) if lastc else None
                    missing = edge_set - set(used)
                    if missing - ({lastp} if lastp else set()):
                        return 'layer:%s:coupled-pair-never-offered' % gen_name
                    if len(used) != len(set(used)) and gen_name != 'gateset-default':
                        return 'layer:%s:duplicate-successor' % gen_name
            level = nxt
            if not level:
                break
        return None
    try:
        fp = rt.nt(run)
    except Exception as ex:
        rt.reach()
        if rt.CONCRETE:
            rt.log('generator', gen_name, 'n', n, 'radix', radix, 'edges', edges, 'target', tkind, 'raised', repr(ex))
        return rt.fail('layer:%s:raises-%s' % (gen_name, type(ex).__name__))
    rt.reach()
    if rt.CONCRETE:
        rt.log('generator', gen_name, 'n', n, 'radix', radix, 'edges', edges, 'target', tkind, '->', fp)
    return True if fp is None else rt.fail(fp)


def layergen(g: int, nq: int, rx: int, tk: int, e01: bool, e02: bool, e03: bool, e12: bool, e13: bool, e23: bool) -> bool:
    """
    post: _
    """
    return _layer_body(g, nq, rx, tk, e01, e02, e03, e12, e13, e23)


def obligations(tier: str) -> list[dict]:
    obs = []
    graphs = [('n2-edge', 2, [(0, 1)]), ('n3-line', 3, [(0, 1), (1, 2)]), ('n3-one-edge', 3, [(0, 2)])]
    for which in ('qsearch', 'leap'):
        for (gname, n, edges) in graphs:
            for L in (1, 2):
                obs.append({'name': 'S/%s/%s/maxlayer%d' % (which, gname, L), 'func': 'search',
                            'shard': {'pass': which, 'n': n, 'edges': edges, 'max_layer': L}, 'timeout': 200})
        if tier != 'quick':
            obs.append({'name': 'S/%s/n3-triangle/maxlayer2' % which, 'func': 'search',
                        'shard': {'pass': which, 'n': 3, 'edges': [(0, 1), (0, 2), (1, 2)], 'max_layer': 2}, 'timeout': 3600})
            obs.append({'name': 'S/%s/n2-edge/maxlayer3' % which, 'func': 'search',
                        'shard': {'pass': which, 'n': 2, 'edges': [(0, 1)], 'max_layer': 3}, 'timeout': 600})
            obs.append({'name': 'S/%s/n3-line/maxlayer3' % which, 'func': 'search',
                        'shard': {'pass': which, 'n': 3, 'edges': [(0, 1), (1, 2)], 'max_layer': 3}, 'timeout': 3600})
    obs.append({'name': 'L/generators-x-graphs/n2-4', 'func': 'layergen', 'shard': {'max_n': 4},
                'timeout': 400 if tier == 'quick' else 1800})
    return obs
