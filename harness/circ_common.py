"""Shared harness for C04 (documented effect on program order) and C05 (view consistency).

One obligation = pre-state built through the public API from symbolic integers, then one
or two editing calls whose *kind is fixed by the shard* and whose every integer argument is
symbolic. After every call the oracle selected by SHARD['oracle'] is evaluated:

  'order' (C04): the per-qudit timelines (CircuitGates expanded) after the call equal what
                 the documented effect of the call gives when applied to the timelines read
                 from the real circuit before the call; return values as documented.
  'views' (C05): vf.circ_oracle.check_invariant + "a call with valid arguments raises
                 nothing; a call with invalid arguments raises only IndexError/ValueError/
                 TypeError".
"""
from __future__ import annotations

import operator
from typing import Any

from bqskit.ir.circuit import Circuit
from bqskit.ir.gates.circuitgate import CircuitGate
from bqskit.ir.operation import Operation
from vf import rt
from vf.circ_oracle import DOCUMENTED, TG, Viol, check_invariant, flat_iter, flat_of, top_seqs

KINDS = [
    'append_gate', 'insert_gate', 'pop', 'pop_last', 'replace_gate', 'remove', 'pop_cycle',
    'insert_qudit', 'append_qudit', 'pop_qudit', 'renumber', 'fold', 'unfold', 'straighten',
    'compress', 'batch_pop', 'batch_replace', 'replace_with_circuit', 'append_circuit',
    'insert_circuit', 'unfold_all', 'batch_unfold', 'inverse', 'add', 'mul', 'iadd', 'imul',
    'copy', 'become', 'clear', 'extend', 'remove_all', 'fold_unfold', 'replace_perm',
]

NARGS = 10  # ints per call after zero-padding

# number of leading symbolic ints each kind consumes (the rest is concrete zero padding)
NA = {
    'append_gate': 4, 'insert_gate': 5, 'pop': 2, 'pop_last': 0, 'replace_gate': 6, 'remove': 3,
    'remove_all': 3, 'pop_cycle': 1, 'insert_qudit': 1, 'append_qudit': 0, 'pop_qudit': 1, 'renumber': 3,
    'fold': 9, 'straighten': 9, 'fold_unfold': 9, 'unfold': 2, 'batch_unfold': 3, 'compress': 0,
    'unfold_all': 0, 'copy': 0, 'clear': 0, 'batch_pop': 7, 'batch_replace': 8, 'replace_with_circuit': 4,
    'append_circuit': 5, 'insert_circuit': 6, 'add': 3, 'iadd': 3, 'extend': 3, 'mul': 1, 'imul': 1,
    'inverse': 0, 'become': 1, 'replace_perm': 3,
}


def entry_name(npre: int, kinds: list) -> str:
    return 'f_%d_%d' % (npre, sum(NA[k] for k in kinds))
  # symbolic ints per call


class Tags:
    def __init__(self) -> None:
        self.n = 0

    def new(self) -> int:
        self.n += 1
        return self.n


def decode_loc(W: int, a: int, q0: int, q1: int, q2: int) -> list[int] | None:
    """arity a in 1..3, qudits distinct and in range -> location list; else None."""
    if a < 1 or a > 3 or a > W:
        return None
    qs = [q0, q1, q2][:a]
    for q in qs:
        if q < 0 or q >= W:
            return None
    if a >= 2 and q0 == q1:
        return None
    if a == 3 and (q0 == q2 or q1 == q2):
        return None
    return [int(q) for q in qs] if rt.CONCRETE else qs


def small_circuit(n: int, shape: int, tags: Tags, radixes: tuple) -> Circuit:
    """A few fixed sub-circuit shapes over n qudits used by the *_circuit calls."""
    c = Circuit(n, radixes)
    if shape == 0:
        return c                               # empty sub-circuit
    if shape == 1:                             # two sequential ops on qudit 0
        c.append_gate(TG(tags.new(), 1, radixes[:1]), [0])
        c.append_gate(TG(tags.new(), 1, radixes[:1]), [0])
        return c
    if shape == 2 and n >= 2:                  # full-width op then 1-qudit op on last qudit
        c.append_gate(TG(tags.new(), n, radixes), list(range(n)))
        c.append_gate(TG(tags.new(), 1, radixes[n - 1:]), [n - 1])
        return c
    if shape == 3 and n >= 2:                  # 1-qudit on 0, then reversed full-width op
        c.append_gate(TG(tags.new(), 1, radixes[:1]), [0])
        c.append_gate(TG(tags.new(), n, tuple(reversed(radixes))), list(reversed(range(n))))
        return c
    c.append_gate(TG(tags.new(), 1, radixes[:1]), [0])
    return c


def build_pre(W: int, npre: int, xs: list[int], tags: Tags) -> Circuit | None:
    """Pre-state: npre x insert_gate(cycle, T, loc) with symbolic (arity, q0, q1, q2, cycle);
    arity code 4 = a folded block of two sequential 1-qudit ops on q0 (CircuitGate);
    then an optional pop at (xs[-2], xs[-1]) (xs[-2] < 0: no pop) to open gaps."""
    circ = Circuit(W)
    pins = rt.SHARD.get('pin', {})      # {"<index into xs>": value}: shards a big obligation by pinning inputs

    def px(idx: int, lo: int, hi: int) -> Any:
        if str(idx) in pins:
            v = int(pins[str(idx)])
            return v if lo <= v <= hi else None
        return rt.P(xs[idx], lo, hi)
    for i in range(npre):
        codes = [k for k in rt.SHARD.get('codes', [1, 2, 3, 4, 5, 6])
                 if not ((k in (2, 5, 6) and W < 2) or (k == 3 and W < 3))]
        ai = px(5 * i, 0, len(codes) - 1)
        if ai is None:
            return None
        a = codes[ai]
        q0 = px(5 * i + 1, 0, W - 1)
        if q0 is None:
            return None
        q1 = px(5 * i + 2, 0, W - 1 if a in (2, 3, 5, 6) else 0)
        if q1 is None:
            return None
        q2 = px(5 * i + 3, 0, W - 1 if a == 3 else 0)
        if q2 is None:
            return None
        c = px(5 * i + 4, 0, circ.num_cycles)
        if c is None:
            return None
        if a == 4:
            if q0 < 0 or q0 >= W or q1 != 0 or q2 != 0:
                return None
            sub = rt.nt(small_circuit, 1, 1, tags, (2,))
            rt.nt(circ.insert_circuit, c, sub, [q0], True)
            continue
        if a in (5, 6):     # two-qudit block: shape 2 ([A(0,1), B(1)]) / shape 3 ([A(0), B(1,0)])
            loc = decode_loc(W, 2, q0, q1, 0)
            if loc is None or q2 != 0:
                return None
            sub = rt.nt(small_circuit, 2, a - 3, tags, (2, 2))
            rt.nt(circ.insert_circuit, c, sub, loc, True)
            continue
        loc = decode_loc(W, a, q0, q1, q2)
        if loc is None:
            return None
        if a < 3 and q2 != 0:
            return None
        if a < 2 and q1 != 0:
            return None
        rt.nt(circ.insert_gate, c, TG(tags.new(), a), loc)
    pc, pq = xs[5 * npre], xs[5 * npre + 1]
    pc = rt.P(pc, -1, circ.num_cycles - 1 if rt.SHARD.get('prepop', True) else -1)
    if pc is None:
        return None
    pq = rt.P(pq, 0, W - 1 if pc >= 0 else 0)
    if pq is None:
        return None
    if pc >= 0:
        if pc >= circ.num_cycles or pq < 0 or pq >= W:
            return None
        if rt.nt(circ.is_point_idle, (pc, pq)):
            return None
        # canonical: pop addressed through the first qudit of the op only
        if rt.nt(lambda: circ[pc, pq].location[0]) != pq:
            return None
        rt.nt(circ.pop, (pc, pq))
    elif pc != -1 or pq != 0:
        return None
    return circ


def tagset(op: Operation) -> set:
    from vf.circ_oracle import _flat_op
    out = set()
    for j in range(len(op.location)):
        for e in _flat_op(op, j):
            out.add(e[0])
    return out


def seq_keys(circ: Circuit) -> list[list[tuple[int, Any]]]:
    """Per qudit [(cycle, flat-entries-of-that-op-on-this-qudit)] (before-state for the model)."""
    from vf.circ_oracle import _flat_op
    return [[(c, tuple(_flat_op(op, j))) for (c, op, j) in seq] for seq in top_seqs(circ)]


def flatten(seqs: list[list[tuple[int, Any]]]) -> tuple:
    return tuple(tuple(e for (_, ent) in s for e in ent) for s in seqs)


class Outcome:
    """What one call did: raised / returned, and what the model expects."""

    def __init__(self) -> None:
        self.raised: BaseException | None = None
        self.ret: Any = None
        self.valid: bool | None = None      # None = validity not modelled for this call
        self.expect: tuple | None = None    # expected flat timelines (None = not modelled)
        self.expect_ret: Any = '__any__'
        self.subject: Circuit | None = None  # circuit to run the oracles on (default: circ)
        self.extra: list = []               # further circuits that must satisfy the invariant


def norm_cycle(c: int, n: int) -> int | None:
    if c >= n or c < -n:
        return None
    return c if c >= 0 else c + n


def model_insert(seqs: list, W: int, ncyc: int, c: int, loc: list[int], ent_of: Any) -> tuple:
    """Documented effect of insert(c, op): after everything in cycles < c, before everything
    in cycles >= c on the op's qudits; out of range high -> appended; low -> cycle 0."""
    if ncyc == 0:
        cc = 0
    elif c >= ncyc:
        cc = ncyc           # appended (after everything)
    elif c < -ncyc:
        cc = 0
    else:
        cc = c if c >= 0 else c + ncyc
    out = []
    for q in range(W):
        s = list(seqs[q])
        if q in loc:
            j = loc.index(q)
            k = 0
            while k < len(s) and s[k][0] < cc:
                k += 1
            s.insert(k, (cc, ent_of(j)))
        out.append(s)
    return flatten(out)


def next_range(kind: str, W: int, n: int, p: list[int]) -> tuple[int, int]:
    """Range of the next symbolic argument of `kind`, given the already concretised ones."""
    i = len(p)
    narrow = bool(rt.SHARD.get('narrow', False))      # quick tier: in-range arguments only (thorough adds the out-of-range ones)

    def locr(base: int) -> tuple[int, int]:
        j = i - base
        if j == 0:
            return (1, min(3, W))
        return (0, W - 1) if j - 1 < p[base] else (0, 0)

    if kind == 'append_gate':
        return locr(0)
    if kind == 'insert_gate':
        return locr(0) if i < 4 else ((0, n) if narrow else (-n - 1, n + 1))
    if kind == 'pop':
        if narrow:
            return (0, max(n - 1, 0)) if i == 0 else (0, W - 1)
        return (-n - 1, n) if i == 0 else (-W - 1, W)
    if kind == 'replace_gate':
        if i == 0:
            return (0, n)
        if i == 1:
            return (0, W - 1)
        return locr(2)
    if kind in ('remove', 'remove_all'):
        return [(0, n - 1), (0, W - 1), (0, 1)][i]
    if kind == 'replace_perm':       # [c, q, rotation]: replace by a fresh gate on the SAME qudits, location rotated
        return [(0, max(n - 1, 0)), (0, W - 1), (0, 1)][i]
    if kind == 'pop_cycle':
        return (0, max(n - 1, 0)) if narrow else (-n - 1, n)
    if kind == 'insert_qudit':
        return (0, W) if narrow else (-W - 1, W + 1)
    if kind == 'pop_qudit':
        return (0, W - 1) if narrow else (-W - 1, W)
    if kind == 'renumber':
        return (0, W - 1) if i < W else (0, 0)
    if kind in ('fold', 'straighten', 'fold_unfold'):
        if i < 3:
            return (0, 1) if i < W else (0, 0)
        q = (i - 3) // 2
        if p[q] == 0:
            return (0, 0)
        if (i - 3) % 2 == 0:
            return (0, n)
        return (p[i - 1], n)
    if kind == 'unfold':
        return [(0, max(n - 1, 0)), (0, W - 1)][i]
    if kind == 'batch_unfold':
        return [(0, max(n - 1, 0)), (0, W - 1), (0, 1)][i]
    if kind == 'batch_pop':          # [k, c0, q0, c1, q1, c2, q2]
        if i == 0:
            return (1, 3)
        j = (i - 1) // 2
        if j >= p[0]:
            return (0, 0)
        return (0, n) if (i - 1) % 2 == 0 else (0, W - 1)
    if kind == 'batch_replace':      # [k, order, c0, q0, m0, c1, q1, m1]
        if i == 0:
            return (1, 2)
        if i == 1:
            return (0, 1) if p[0] == 2 else (0, 0)
        j = (i - 2) // 3
        if j >= p[0]:
            return (0, 0)
        return [(0, n - 1), (0, W - 1), (0, len(rt.SHARD.get('br_modes', [0, 1, 2])) - 1)][(i - 2) % 3]
    if kind == 'replace_with_circuit':   # [c, q, shape, as_gate]
        return [(0, n - 1) if narrow else (-n, n - 1), (0, W - 1), (0, 3), (0, 1)][i]
    if kind == 'append_circuit':         # [ar, q0, shape, as_gate, q1]
        if i == 0:
            return (1, min(2, W))
        if i == 4:
            return (0, W - 1) if p[0] == 2 else (0, 0)
        return [None, (0, W - 1), (0, 3), (0, 1)][i]  # type: ignore
    if kind == 'insert_circuit':         # [ar, q0, shape, as_gate, q1, c]
        if i == 5:
            return (0, n) if narrow else (-n - 1, n + 1)
        return next_range('append_circuit', W, n, p)
    if kind in ('add', 'iadd', 'extend'):   # [0, 0, shape]
        return (0, 0) if i < 2 else (0, 3)
    if kind in ('mul', 'imul'):
        return (1, 3)
    if kind == 'become':
        return (0, 1)
    raise AssertionError(kind)


def pick_args(kind: str, W: int, n: int, a: list) -> list[int] | None:
    """Concretises the arguments one by one; each is first confined to its stated range
    (a path outside is discarded), then split by a solver-decided binary ladder."""
    p: list[int] = []
    for i in range(NA[kind]):
        lo, hi = next_range(kind, W, n, p)
        v = rt.P(a[i], lo, hi)
        if v is None:
            return None
        p.append(v)
    return p + [0] * (NARGS - len(p))


def do_call(circ: Circuit, kind: str, a: list[int], tags: Tags) -> Outcome | None:
    W = circ.num_qudits
    n = circ.num_cycles
    a2 = pick_args(kind, W, n, a)
    if a2 is None:
        return None
    return rt.nt(do_call_concrete, circ, kind, a2, tags)


def do_call_concrete(circ: Circuit, kind: str, a: list[int], tags: Tags) -> Outcome | None:
    """Performs one editing call on `circ`. Returns None when the integer arguments are
    outside the harness's (stated) argument space for this kind (path is discarded)."""
    W = circ.num_qudits
    n = circ.num_cycles
    o = Outcome()
    before = seq_keys(circ)
    g = [[circ[c, q] if not circ.is_point_idle((c, q)) else None for q in range(W)] for c in range(n)]

    def call(fn: Any, *args: Any) -> None:
        try:
            o.ret = fn(*args)
        except Exception as e:  # noqa
            o.raised = e

    if kind in ('append_gate', 'insert_gate'):
        ar, q0, q1, q2, c = a[:5]
        loc = decode_loc(W, ar, q0, q1, q2)
        if loc is None:
            return None
        if kind == 'append_gate':
            c = 0
        if c < -n - 1 or c > n + 1:
            return None
        t = tags.new()
        gate = TG(t, ar)
        o.valid = True
        ent = lambda j: ((t, j, ()),)
        if kind == 'append_gate':
            o.expect = model_insert(before, W, n, n + 1 if n else 0, loc, ent)
            exp_cycle = 0
            for q in loc:
                if before[q]:
                    exp_cycle = max(exp_cycle, before[q][-1][0] + 1)
            o.expect_ret = exp_cycle
            call(circ.append_gate, gate, loc)
        else:
            o.expect = model_insert(before, W, n, c, loc, ent)
            o.expect_ret = None
            call(circ.insert_gate, c, gate, loc)
        return o

    if kind == 'pop':
        c, q = a[:2]
        if c < -n - 1 or c > n or q < -W - 1 or q > W:
            return None
        cc, qq = norm_cycle(c, n), norm_cycle(q, W)
        o.valid = cc is not None and qq is not None and g[cc][qq] is not None
        if o.valid:
            op = g[cc][qq]
            o.expect = flatten([[e for e in s if not (e[0] == cc and q2 in op.location)]
                                for q2, s in enumerate(before)])
            o.expect_ret = op
        call(circ.pop, (c, q))
        return o

    if kind == 'pop_last':
        o.valid = n > 0
        if n > 0:
            last_q = max(q for q in range(W) if g[n - 1][q] is not None)
            op = g[n - 1][last_q]
            o.expect = flatten([[e for e in s if not (e[0] == n - 1 and q2 in op.location)]
                                for q2, s in enumerate(before)])
            o.expect_ret = op
        call(circ.pop)
        return o

    if kind == 'replace_perm':
        c, q, r = a[:3]
        if c >= n or g[c][q] is None:
            return None
        old = list(g[c][q].location)
        newloc = old[r:] + old[:r] if r else list(old)
        a = [c, q, len(newloc)] + newloc + [0] * (3 - len(newloc)) + [0] * 4
        kind = 'replace_gate'
    if kind == 'replace_gate':
        c, q, ar, q0, q1, q2 = a[:6]
        loc = decode_loc(W, ar, q0, q1, q2)
        if loc is None or c < 0 or c > n or q < 0 or q >= W:
            return None
        t = tags.new()
        has = c < n and g[c][q] is not None
        o.valid = bool(has and (set(g[c][q].location) & set(loc)))
        if not has or not (set(g[c][q].location) & set(loc)):
            o.valid = False
        if o.valid:
            old = g[c][q]
            oldloc = list(old.location)
            # model: old op removed; new op after everything in cycles < c and before
            # everything in cycles > c on its qudits; relative to other ops of cycle c on
            # qudits that the old op did not cover, both orders are acceptable.
            o.expect = ('replace', c, oldloc, loc, t)
            o.old_tags = [tagset(old)]
        call(circ.replace_gate, (c, q), TG(t, ar), loc)
        return o

    if kind in ('remove', 'remove_all'):
        c, q = a[:2]
        if c < 0 or c >= n or q < 0 or q >= W or g[c][q] is None:
            return None
        op = g[c][q]
        if op.location[0] != q:
            return None
        o.valid = True
        # tags are unique, so exactly this op is removed
        o.expect = flatten([[e for e in s if not (e[0] == c and q2 in op.location)]
                            for q2, s in enumerate(before)])
        o.expect_ret = None
        if a[2] == 0:
            call(getattr(circ, kind), Operation(op.gate, op.location, op.params))
        elif a[2] == 1:
            call(getattr(circ, kind), op.gate)
        else:
            return None
        return o

    if kind == 'pop_cycle':
        c = a[0]
        if c < -n - 1 or c > n:
            return None
        cc = norm_cycle(c, n)
        o.valid = cc is not None
        if o.valid:
            o.expect = flatten([[e for e in s if e[0] != cc] for s in before])
        call(circ.pop_cycle, c)
        return o

    if kind == 'insert_qudit':
        qi = a[0]
        if qi < -W - 1 or qi > W + 1:
            return None
        o.valid = True
        if qi >= W:
            k = W
        elif qi <= -W:
            k = 0
        elif qi < 0:
            k = W + qi
        else:
            k = qi
        fl = list(flatten(before))
        fl.insert(k, ())
        o.expect = tuple(fl)
        call(circ.insert_qudit, qi)
        return o

    if kind == 'append_qudit':
        o.valid = True
        o.expect = tuple(list(flatten(before)) + [()])
        call(circ.append_qudit)
        return o

    if kind == 'pop_qudit':
        qi = a[0]
        if qi < -W - 1 or qi > W:
            return None
        k = norm_cycle(qi, W)
        o.valid = k is not None and W > 1
        if o.valid:
            dead = set()
            for c in range(n):
                if g[c][k] is not None:
                    dead.add(c)
            exp = []
            for q2 in range(W):
                if q2 == k:
                    continue
                exp.append([e for e in before[q2]
                            if not (e[0] in dead and q2 in g[e[0]][k].location)])
            o.expect = flatten(exp)
        call(circ.pop_qudit, qi)
        return o

    if kind == 'renumber':
        perm = a[:W]
        for p in perm:
            if p < 0 or p >= W:
                return None
        if len(set(int(p) if rt.CONCRETE else p for p in perm)) != W:
            # a non-permutation: documented ValueError
            o.valid = False
        else:
            o.valid = True
            fl = flatten(before)
            exp: list = [()] * W
            for q2 in range(W):
                exp[perm[q2]] = fl[q2]
            o.expect = tuple(exp)
        call(circ.renumber_qudits, list(perm))
        return o

    if kind in ('fold', 'straighten', 'fold_unfold'):
        # region: a[q] in {0,1} membership of qudit q, (a[3+2q], a[4+2q]) = (lo, hi) bounds
        region = {}
        for q2 in range(3):
            m, lo, hi = a[q2], a[3 + 2 * q2], a[4 + 2 * q2]
            if q2 >= W or m == 0:
                if m != 0 or lo != 0 or hi != 0:
                    return None
                continue
            if m != 1 or lo < 0 or hi < lo or hi > n:
                return None
            region[q2] = (lo, hi)
        if not region:
            return None
        o.expect = flatten(before)        # structure-only: timelines unchanged
        if kind == 'fold':
            call(circ.fold, region)
            if o.raised is None:
                pt = o.ret
                ok = (not circ.is_point_idle(pt)) and isinstance(circ[pt].gate, CircuitGate)
                if not ok:
                    o.raised = Viol('fold-return-not-a-block', repr(pt))
        elif kind == 'straighten':
            call(circ.straighten, region)
        else:
            def fu() -> None:
                pt = circ.fold(region)
                fu.folded = True            # type: ignore
                circ.unfold(pt)
            fu.folded = False               # type: ignore
            call(fu)
            if o.raised is not None and fu.folded:   # type: ignore
                o.valid = True              # unfold of a just-folded block is always valid
        return o

    if kind in ('unfold', 'batch_unfold'):
        c, q = a[:2]
        if c < 0 or c >= max(n, 1) or q < 0 or q >= W:
            return None
        has = c < n and g[c][q] is not None
        o.valid = bool(has and isinstance(g[c][q].gate, CircuitGate))
        if not has:
            return None
        o.expect = flatten(before)
        if kind == 'unfold':
            call(circ.unfold, (c, q))
        else:
            pts = [(c, q)]
            # every block in the circuit when a[2] == 1
            if a[2] == 1:
                pts = [(cc, qq) for cc in range(n) for qq in range(W)
                       if g[cc][qq] is not None and isinstance(g[cc][qq].gate, CircuitGate)]
                o.valid = True
            elif a[2] != 0:
                return None
            call(circ.batch_unfold, pts)
        return o

    if kind in ('compress', 'unfold_all', 'copy', 'clear'):
        o.valid = True
        o.expect = flatten(before) if kind != 'clear' else tuple(() for _ in range(W))
        if kind == 'copy':
            call(circ.copy)
            if o.raised is None:
                o.subject = o.ret
                o.extra = [circ]
        else:
            call(getattr(circ, kind))
        if kind == 'unfold_all' and o.raised is None:
            if any(isinstance(op.gate, CircuitGate) for op in circ):
                o.raised = Viol('unfold_all-left-a-block')
        return o

    if kind == 'batch_pop':
        # points: up to 3 (cycle, qudit) pairs; a[6] = how many
        k = a[0]
        pts = []
        for i in range(k):
            c, q = a[1 + 2 * i], a[2 + 2 * i]
            pts.append((c, q))
        inr = all(c < n for c, _ in pts)
        live = [(c, q) for (c, q) in pts if c < n and g[c][q] is not None]
        o.valid = inr and len(live) > 0
        if o.valid:
            dead = {(c, g[c][q].location[0]) for (c, q) in live}
            o.expect = flatten([[e for e in s if (e[0], g[e[0]][q2].location[0]) not in dead]
                                for q2, s in enumerate(before)])
        call(circ.batch_pop, pts)
        if o.raised is None and o.valid:
            o.extra = [o.ret]
        return o

    if kind == 'batch_replace':
        # replace up to 2 ops (first-qudit addressed) by fresh gates on the same location
        # (a[4]=1: reversed location order for op 1) or by a wider/narrower location.
        k = a[0]
        pts, ops, spec = [], [], []
        for i in range(k):
            c, q, mode = a[2 + 3 * i], a[3 + 3 * i], a[4 + 3 * i]
            br_modes = rt.SHARD.get('br_modes', [0, 1, 2])
            if mode < 0 or mode >= len(br_modes):
                return None
            mode = br_modes[mode]
            if c < 0 or c >= n or q < 0 or q >= W or g[c][q] is None:
                return None
            old = g[c][q]
            if old.location[0] != q:
                return None
            loc = list(old.location)
            if mode == 1:
                loc = list(reversed(loc))
            if mode == 2:      # shrink to the first qudit
                loc = loc[:1]
            if mode == 3:      # widen by the first qudit outside the old location (may need a new cycle)
                others = [x for x in range(W) if x not in loc]
                if not others:
                    return None
                loc = loc + others[:1]
            t = tags.new()
            pts.append((c, q))
            ops.append(Operation(TG(t, len(loc)), loc))
            spec.append((c, list(old.location), loc, t))
            o.__dict__.setdefault('old_tags', []).append(tagset(old))
        if k == 2 and (pts[0] == pts[1]):
            return None
        if k == 2 and a[1] == 1:
            pts.reverse(), ops.reverse()
        o.valid = True
        o.expect = ('batch_replace', spec)
        call(circ.batch_replace, pts, ops)
        return o

    if kind in ('replace_with_circuit', 'append_circuit', 'insert_circuit', 'add', 'iadd', 'extend'):
        shape, asg = a[2], a[3]
        if shape < 0 or shape > 3 or asg not in (0, 1):
            return None
        if kind == 'replace_with_circuit':
            c, q = a[:2]
            if c < -n or c >= n or q < 0 or q >= W:
                return None
            cc = norm_cycle(c, n)
            if g[cc][q] is None:
                return None
            old = g[cc][q]
            m = len(old.location)
            if shape in (2, 3) and m < 2:
                return None
            sub = small_circuit(m, shape, tags, (2,) * m)
            o.valid = True
            subflat = flat_of(sub)
            loc = list(old.location)
            exp = []
            for q2 in range(W):
                s = []
                for e in before[q2]:
                    if e[0] == cc and q2 in loc:
                        s.append((cc, subflat[loc.index(q2)]))
                    else:
                        s.append(e)
                exp.append(s)
            o.expect = flatten(exp)
            call(circ.replace_with_circuit, (c, q), sub, bool(asg))
            return o
        ar, q0, q1 = a[0], a[1], a[4]
        if kind in ('add', 'iadd'):
            if asg != 0 or a[0] != 0 or a[1] != 0 or a[4] != 0:
                return None
            if shape in (2, 3) and W < 2:
                return None
            sub = small_circuit(W, shape, tags, (2,) * W)
            subflat = flat_of(sub)
            o.valid = True
            o.expect = tuple(tuple(x) + tuple(y) for x, y in zip(flatten(before), subflat))
            if kind == 'add':
                call(operator.add, circ, sub)
                o.extra = [circ]
            else:
                call(operator.iadd, circ, sub)
            if o.raised is None:
                if not isinstance(o.ret, Circuit):
                    o.raised = Viol('operator-returned-non-circuit', '%s -> %r' % (kind, o.ret))
                else:
                    o.subject = o.ret
            return o
        if kind == 'extend':
            if asg != 0 or a[4] != 0 or a[0] != 0 or a[1] != 0:
                return None
            if shape in (2, 3) and W < 2:
                return None
            sub = small_circuit(W, shape, tags, (2,) * W)
            o.valid = True
            o.expect = tuple(tuple(x) + tuple(y) for x, y in zip(flatten(before), flat_of(sub)))
            call(circ.extend, list(sub))
            return o
        # append_circuit / insert_circuit on a location of 1 or 2 qudits
        if ar not in (1, 2) or ar > W:
            return None
        loc = decode_loc(W, ar, q0, q1, 0)
        if loc is None:
            return None
        if ar == 1 and q1 != 0:
            return None
        if shape in (2, 3) and ar < 2:
            return None
        sub = small_circuit(ar, shape, tags, (2,) * ar)
        subflat = flat_of(sub)
        o.valid = True
        if kind == 'append_circuit':
            if a[5] != 0:
                return None
            o.expect = tuple(tuple(x) + (tuple(subflat[loc.index(q2)]) if q2 in loc else ())
                             for q2, x in enumerate(flatten(before)))
            if asg or shape == 0:
                pass
            call(circ.append_circuit, sub, loc, bool(asg))
            if shape == 0 and not asg:
                o.expect_ret = -1
        else:
            c = a[5]
            if c < -n - 1 or c > n + 1:
                return None
            o.expect = model_insert(before, W, n, c, loc, lambda j: tuple(subflat[j]))
            if asg == 1 and shape == 0:
                pass
            call(circ.insert_circuit, c, sub, loc, bool(asg))
        return o

    if kind in ('mul', 'imul'):
        k = a[0]
        if k < 1 or k > 3:
            return None
        o.valid = True
        fl = flatten(before)
        o.expect = tuple(tuple(x) * k for x in fl)
        if kind == 'mul':
            call(operator.mul, circ, k)
            o.extra = [circ]
        else:
            call(operator.imul, circ, k)
        if o.raised is None:
            if not isinstance(o.ret, Circuit):
                o.raised = Viol('operator-returned-non-circuit', '%s -> %r' % (kind, o.ret))
            else:
                o.subject = o.ret
        return o

    if kind == 'inverse':
        o.valid = True
        fl = flatten(before)
        o.expect = tuple(tuple((-t, j, tuple(-p for p in ps)) for (t, j, ps) in reversed(x)) for x in fl)
        call(circ.get_inverse)
        if o.raised is None:
            o.subject = o.ret
            o.extra = [circ]
        return o

    if kind == 'become':
        # circ becomes a copy of a second circuit built from the same pre-state + one append
        other = circ.copy()
        t = tags.new()
        other.append_gate(TG(t, 1), [0])
        dc = a[0]
        if dc not in (0, 1):
            return None
        o.valid = True
        o.expect = flat_of(other)
        tgt = Circuit(1)
        call(tgt.become, other, bool(dc))
        o.subject = tgt
        o.extra = [other]
        return o

    raise AssertionError('unknown kind ' + kind)


def check_after(circ: Circuit, kind: str, o: Outcome, oracle: str, before_flat: tuple) -> str | None:
    """Returns a fingerprint string when the oracle is violated, else None."""
    if isinstance(o.raised, Viol):
        return '%s:%s' % (kind, o.raised.fp)
    if o.raised is not None:
        if not isinstance(o.raised, DOCUMENTED):
            return '%s:internal-error:%s' % (kind, type(o.raised).__name__)
        if o.valid is True:
            return '%s:valid-call-raised:%s' % (kind, type(o.raised).__name__)
        if oracle == 'views':
            # a refused call must not corrupt the circuit
            try:
                check_invariant(circ, kind + ' (after refused call)')
            except Viol as v:
                return '%s:refused-call-corrupts:%s' % (kind, v.fp)
        return None
    if o.valid is False:
        return '%s:invalid-call-accepted' % kind
    subj = o.subject if o.subject is not None else circ
    if oracle == 'views':
        for cc in [subj] + list(o.extra):
            try:
                check_invariant(cc, kind)
            except Viol as v:
                return '%s:%s' % (kind, v.fp)
            except Exception as e:
                return '%s:read-api-raised:%s' % (kind, type(e).__name__)
        return None
    # order oracle
    try:
        got = flat_of(subj)
        if flat_iter(subj) != got:
            # the simulation order (iteration) no longer agrees with the grid: a different unitary
            rt.log('grid timelines', got)
            rt.log('iteration timelines', flat_iter(subj))
            return '%s:iteration-order-differs-from-grid' % kind
    except Exception as e:
        return '%s:read-api-raised:%s' % (kind, type(e).__name__)
    exp = o.expect
    if isinstance(exp, tuple) and exp and exp[0] == 'replace':
        _, c, oldloc, loc, t = exp
        return check_replace(kind, before_flat, got, [(c, oldloc, loc, t)], o)
    if isinstance(exp, tuple) and exp and exp[0] == 'batch_replace':
        return check_replace(kind, before_flat, got, exp[1], o)
    if exp is not None and got != exp:
        rt.log('expected timelines', exp)
        rt.log('got      timelines', got)
        return '%s:order' % kind
    if o.expect_ret != '__any__':
        if isinstance(o.expect_ret, Operation):
            if o.ret is not o.expect_ret and o.ret != o.expect_ret:
                return '%s:return-value' % kind
        elif o.ret != o.expect_ret:
            rt.log('expected return', o.expect_ret, 'got', o.ret)
            return '%s:return-value' % kind
    for cc in o.extra:   # operands that must be left untouched
        if kind in ('add', 'mul', 'inverse', 'copy') and flat_of(cc) != before_flat:
            return '%s:operand-modified' % kind
    return None


def check_replace(kind: str, before_flat: tuple, got: tuple, spec: list, o: Outcome) -> str | None:
    """Replacement oracle on timelines: every other op keeps its relative order on every
    qudit; on qudits shared by old and new location the new op sits exactly in the old
    op's slot; on qudits only in the old location the old op is gone; on qudits only in the
    new location the new op appears once (its position is constrained by C05's timeline
    compatibility and by the shared qudits)."""
    info = o.__dict__.get('old_tags') or []
    W = len(got)
    newtags = {t for (_, _, _, t) in spec}
    oldtags = set()
    for ts in info:
        oldtags |= ts
    for q in range(W):
        rest_b = [e for e in before_flat[q] if e[0] not in oldtags]
        rest_a = [e for e in got[q] if e[0] not in newtags]
        if rest_a != rest_b:
            rt.log('qudit', q, 'before', before_flat[q], 'after', got[q])
            return '%s:order' % kind
    for (c, oldloc, loc, t), ots in zip(spec, info):
        for q in range(W):
            has_new = [e for e in got[q] if e[0] == t]
            if q in loc:
                if len(has_new) != 1 or has_new[0][1] != loc.index(q):
                    return '%s:new-op-missing' % kind
            elif has_new:
                return '%s:new-op-on-wrong-qudit' % kind
            if q in loc and q in oldloc:
                slots = [i for i, e in enumerate(before_flat[q]) if e[0] in ots]
                if not slots:
                    # the old op was a block whose body is idle on this qudit: it has no entry on this
                    # timeline, so there is no slot to compare (the order of the other ops is checked above)
                    continue
                ib = min(slots)
                # slot index ignoring nothing: position among all entries must be equal
                # when counted over ops that exist both before and after
                nb = len([e for e in before_flat[q][:ib] if e[0] not in oldtags])
                ia = [e[0] for e in got[q]].index(t)
                na = len([e for e in got[q][:ia] if e[0] not in newtags])
                if na != nb:
                    rt.log('qudit', q, 'before', before_flat[q], 'after', got[q])
                    return '%s:order' % kind
    return None


def run_history(W: int, npre: int, kinds: list[str], oracle: str, xs: list[int], calls: list[list[int]]) -> bool:
    """pre-state, then the calls of `kinds`; oracle after the pre-state and after each call."""
    rt.begin()
    tags = Tags()
    # split at the harness boundary: every integer becomes concrete through a solver-decided
    # binary ladder (dict keys / list indices inside Circuit cannot carry symbolic ints)
    try:
        circ = build_pre(W, npre, xs, tags)
    except Exception as e:
        # building the pre-state uses valid arguments only
        rt.reach()
        rt.log('pre-state construction raised', repr(e))
        return rt.fail('pre-state:%s' % type(e).__name__)
    if circ is None:
        return True
    if rt.CONCRETE:
        rt.log('pre-state', repr(circ), 'timelines', flat_of(circ))
    if oracle == 'views':
        try:
            rt.nt(check_invariant, circ, 'pre-state')
        except Viol as v:
            rt.reach()
            return rt.fail('pre-state:%s' % v.fp)
    subject = circ
    for kind, a in zip(kinds, calls):
        before_flat = rt.nt(flat_of, subject)
        o = do_call(subject, kind, a, tags)
        if o is None:
            return True
        if rt.CONCRETE:
            rt.log('call', kind, a, '->', 'raised %r' % (o.raised,) if o.raised is not None else 'returned %r' % (o.ret,))
        fp = rt.nt(check_after, subject, kind, o, oracle, before_flat)
        if fp is not None:
            rt.reach()
            if rt.CONCRETE:
                rt.log('violated:', fp, '| circuit now:', repr(subject))
            return rt.fail(fp)
        if o.raised is not None:
            break
        if o.subject is not None:
            subject = o.subject
    rt.reach()
    return True


def run_entry(npre: int, xs: list, av: list) -> bool:
    # the harness body runs natively; only the ladders inside rt.P() are traced
    return rt.native(_run_entry, npre, xs, av)


def _run_entry(npre: int, xs: list, av: list) -> bool:
    S = rt.SHARD
    assert npre == S['npre']
    calls = []
    i = 0
    for k in S['kinds']:
        calls.append(list(av[i:i + NA[k]]))
        i += NA[k]
    assert i == len(av)
    return run_history(S['W'], npre, S['kinds'], S['oracle'], xs, calls)
