"""C17 - OpenQASM 2 import/export (partial claim): families X, P (direct, z3) and G, S (CrossHair)."""
from __future__ import annotations

from harness.c17_expr import FUNCS

PROPERTY = 'C17'
LEVEL = 'model_checking'
ENCODED = [
    'bqskit.ir.lang.qasm2.parser:parse (the grammar, through lark)',
    'bqskit.ir.lang.qasm2.visitor:eval_exp,eval_exp_recurse,eval_locals',
    'bqskit.ir.lang.qasm2.visitor:OPENQASMVisitor.{gate,gatep,ugate,ugatep,cxgate,cxgatep,gatedecl,rbracket,qreg,'
    'creg,barrier,measure,reset,flatten_exps,has_param_variable,replace_param_ids,convert_qubit_ids_to_indices,'
    'convert_qubit_id_to_first_index,convert_qubit_id_to_indices,get_circuit,fill_gate_defs}',
    'bqskit.ir.lang.qasm2.visitor:CustomGateDef.{build_op,evaluate_param_exps,replace_param_indices},GateDef.build_op',
    'bqskit.ir.lang.qasm2.qasm2:OPENQASM2Language.{encode,decode}', 'bqskit.ir.lang:get_language',
    'bqskit.ir.gate:Gate.{get_qasm,get_qasm_gate_def,qasm_name}', 'bqskit.ir.operation:Operation.get_qasm',
    'bqskit.ir.gates.circuitgate:CircuitGate.{get_qasm,get_qasm_gate_def}',
    'bqskit.ir.gates.composed.controlled:ControlledGate.qasm_name',
    'bqskit.ir.gates.measure:MeasurementPlaceholder.{get_qasm,get_qasm_gate_def}',
]
ASSUMPTIONS = [
    '(X,P) harness symbols x0..x2 / m0.. are added to visitor.eval_locals at run time and the name `float` is '
    'shadowed in the visitor module by a class that is the builtin on numbers and keeps a symbolic value as a tagged '
    'float; nothing else of the decoder is replaced (the parse, the text flattening and `eval` are the real ones)',
    '(X,P) reference semantics = OpenQASM 2 as implemented by the reference loader: + - left (lowest), * / left, '
    'unary minus above * /, ^ right-associative and above unary minus; functions sin cos tan exp ln sqrt; '
    'gate parameters are bound by VALUE',
    '(X,P) sin/cos/tan/exp/ln/sqrt and non-literal powers are uninterpreted in z3 (syntactic agreement); constant '
    'sub-terms are folded in floating point on both sides and constants agreeing to 1e-9 are identified; '
    'denominators are assumed non-zero',
    '(P) the text of a real number is one unsigned literal token, preceded by "-" when negative (no inf/nan)',
    '(G) g_offsets: the register table (visitor.qubit_regs) is filled by the harness with QubitReg(name, symbolic '
    'size) and the number tokens of the real parse tree are replaced by symbolic ints (the real `qreg` formats the '
    'size with %d, which would make CrossHair enumerate it); `qreg`/`get_circuit` run in g_stmt with split sizes',
    '(G) a LangException is an accepted outcome for register broadcast of unitary gates (not implemented by the '
    'decoder, rejected cleanly); every accepted program must match the reference flat indices; only valid programs '
    '(index < register size, distinct qubits, equal sizes in a broadcast) are generated',
    '(G) the keys of MeasurementPlaceholder.measurements are flat qubit indices (class docstring; the encoder '
    'writes `measure q[key]`)',
    '(S) equality of decoded and original operation = same location tuple and numerically equal unitary at the '
    'representative parameters (1e-9), parameters equal to 1e-12 when the gate class is unchanged; gates whose '
    'Operation.get_qasm raises (no QASM spelling) are outside; constructor arguments of parameterised classes come '
    'from the table in harness/c17_rt.py:_instances',
]
BOUNDS = {
    'quick': '(X) every expression of <=7 tokens over + - * / ^ unary- ( ) and the six functions, leaves x0..x2 '
             '(pi / integer / decimal / exponent literal in each leaf position for <=5 tokens), exponents 2,3; '
             '(P) one- and two-parameter gate bodies of <=5 tokens (U/CX/named gates, 2-qubit bodies <=4), nested '
             'bodies of <=3 tokens each, all real argument values (sign split); (G) <=3 registers; index arithmetic '
             'with symbolic sizes in [1,2^20] (whole-register items: size<=3), whole statements with sizes 1..3 '
             '(every item pattern of <=3 whole/indexed items); (S) 1 operation on 3 qubits (5 for 4-5 qubit gates), '
             '2 operations on 2 qubits (every catalogue gate x a 12-gate context set, both orders), 2 operations on '
             '3 qubits (>=3-qubit gates x context), every library gate with a QASM spelling',
    'thorough': '(X) <=10 tokens (leaf literal variants <=7); (P) bodies <=7 tokens, nested <=5 each; (G) sizes 1..4, '
                'all register assignments; (S) 2 operations over the whole catalogue on 2 and 3 qubits, 3 operations '
                '(context^3 on 3 qubits, context x all x context on 2 qubits)',
}
OUTSIDE = ('differential against Qiskit\'s qasm2 loader (its published binding powers are what oracle (X) encodes by '
           'hand); bqskit.ext.{qiskit,cirq,pytket} translators; `if` statements; `include` of files from disk; '
           '`opaque`; the LALR tables of lark; expressions longer than the token bound or with non-literal exponents; '
           'float printing precision beyond repr round trip; circuits of more than 3 operations / 3 qubits (S)')
RULE = ('X/P: one case = one expression / program x sign branch decided by z3 for ALL real leaf values; '
        'G/S: one case = one path of the symbolic execution tree of the harness function')


def obligations(tier: str) -> list[dict]:
    obs: list[dict] = []
    thorough = tier != 'quick'

    def X(group: str, nmin: int, nmax: int, timeout: int) -> None:
        obs.append({'name': 'X/%s/n%d-%d' % (group, nmin, nmax), 'func': 'x_family', 'kind': 'direct',
                    'shard': {'group': group, 'nmin': nmin, 'nmax': nmax}, 'timeout': timeout})

    def P(tpl: str, nmin: int, nmax: int, timeout: int, **kw) -> None:
        sh = {'tpl': tpl, 'nmin': nmin, 'nmax': nmax}
        sh.update(kw)
        obs.append({'name': 'P/%s/n%d-%d%s' % (tpl, nmin, nmax, '/' + kw['tag'] if 'tag' in kw else ''),
                    'func': 'p_family', 'kind': 'direct', 'shard': sh, 'timeout': timeout})

    def G(func: str, name: str, timeout: int, cases: list) -> None:
        obs.append({'name': 'G/%s/%s' % (func[2:], name), 'func': func, 'kind': 'ch', 'shard': {'cases': cases},
                    'timeout': timeout})

    wmax = 4 if thorough else 3
    smax = 4 if thorough else 3
    T = 2400 if thorough else 900

    def oc(pat: str, nreg: int = 3, w: int | None = None) -> dict:
        return {'nreg': nreg, 'pattern': pat, 'wmax': w or (wmax if pat.count('W') < 3 else wmax - 1)}

    def sc(stmt: str, pat: str, nreg: int = 3, smx: int | None = None, regs: list | None = None) -> dict:
        d = {'stmt': stmt, 'pattern': pat, 'nreg': nreg, 'smax': smx or smax}
        if regs:
            d['regs'] = regs
        return d

    G('g_offsets', 'items1-2', T, [oc(p) for p in ['I', 'W', 'II', 'IW', 'WI']] + [oc('II', 2), oc('W', 1, wmax + 2)])
    P3 = ['III', 'IIW', 'IWI', 'WII', 'WIW', 'IWW']
    if thorough:
        G('g_offsets', 'items3', T, [oc(p) for p in P3])
    else:
        for regs in ([0, 1, 2], [2, 0, 1], [1, 1, 0]):
            G('g_offsets', 'items3-%s' % ''.join(map(str, regs)), T, [dict(oc(p), regs=regs) for p in P3])
    G('g_offsets', 'idlist', T, [oc(p) for p in ['WW', 'WWI', 'WWW']])
    G('g_stmt', 'cx-II', T, [sc('cx', 'II')])
    G('g_stmt', 'CX-II', T, [sc('CX', 'II')])
    if thorough:
        G('g_stmt', 'swap-II', T, [sc('swap', 'II')])
    G('g_stmt', 'single', T, [sc('h', 'I'), sc('U', 'I'), sc('barrier', 'I'), sc('barrier', 'W'), sc('reset', 'I'),
                              sc('measure', 'W'), sc('barrier', 'W', 1, smax + 2), sc('measure', 'W', 2, smax + 1)])
    G('g_stmt', 'measure-I', T, [sc('measure', 'I')])
    G('g_stmt', 'reset-W', T, [sc('reset', 'W'), sc('reset', 'W', 2, smax + 1)])
    G('g_stmt', 'barrier2', T, [sc('barrier', p) for p in ['II', 'IW', 'WI']] + [sc('cx', 'II', 2, smax + 1)])
    G('g_stmt', 'idlist', T, [sc('barrier', 'WW'), sc('cx', 'WW')] +
      [sc('barrier', p, 3, smax - 1, [0, 1, 2]) for p in ['WWI', 'WWW']])
    G('g_stmt', 'broadcast', T, [sc('h', 'W'), sc('cx', 'IW'), sc('cx', 'WI')])
    G('g_stmt', 'ccx', T, [sc('ccx', 'III', 3, smax, r) for r in
                           ([0, 1, 2], [2, 0, 1], [1, 2, 0], [2, 1, 0], [1, 1, 0], [0, 2, 2])])
    for regs in ([0, 1, 2], [2, 0, 1], [2, 1, 0]) + (([1, 2, 0], [1, 0, 2], [0, 2, 1]) if thorough else ()):
        G('g_stmt', 'barrier3-%s' % ''.join(map(str, regs)), T,
          [sc('barrier', p, 3, smax - 1 if p.count('W') >= 2 else smax, list(regs))
           for p in ['III', 'IIW', 'IWI', 'WII', 'WIW', 'IWW']])

    def S(name: str, timeout: int, **sh) -> None:
        obs.append({'name': 'S/' + name, 'func': 's_entry', 'kind': 'ch', 'shard': sh, 'timeout': timeout})

    S('1op/W3', T, W=3, nops=1, pools=['all'])
    S('1op/W5-wide', T, W=5, nops=1, pools=['wide'], maxloc=12)
    if not thorough:
        for i in range(3):
            S('2op/W2/all-context/%d' % i, T, W=2, nops=2, pools=['all', 'context'], slice0=[i, 3])
            S('2op/W2/context-all/%d' % i, T, W=2, nops=2, pools=['context', 'all'], slice1=[i, 3])
        S('2op/W3/wide-context', T, W=3, nops=2, pools=['wide', 'context'], maxloc=3)
        S('2op/W3/context-wide', T, W=3, nops=2, pools=['context', 'wide'], maxloc=3)
    else:
        for i in range(12):
            S('2op/W2/%02d' % i, T, W=2, nops=2, pools=['all', 'all'], slice0=[i, 12])
        for i in range(32):
            S('2op/W3/%02d' % i, T, W=3, nops=2, pools=['all', 'all'], slice0=[i, 32], maxloc=6)
        for i in range(6):
            S('3op/W3/context/%d' % i, T, W=3, nops=3, pools=['context', 'context', 'context'], slice0=[i, 6], maxloc=3)
        for i in range(12):
            S('3op/W2/%02d' % i, T, W=2, nops=3, pools=['context', 'all', 'context'], slice1=[i, 12])

    ARGS = [['x0'], ['-', 'x0'], ['x0', '-', 'x1'], ['x0', '*', 'x1'], ['x0', '/', '3']]
    if not thorough:
        X('base', 1, 7, 900)
        X('fn-sin+fn-cos+fn-tan+fn-ln+fn-mixed', 1, 7, 900)
        X('fn-exp', 1, 7, 900)
        X('fn-sqrt', 1, 7, 900)
        X('leaf', 1, 5, 900)
        P('one', 1, 5, 900, args=ARGS)
        P('two', 1, 5, 900)
        P('ugate', 1, 4, 900)
        P('nested', 1, 3, 900)
    else:
        X('base', 1, 8, 1500)
        X('base', 9, 9, 1500)
        X('base', 10, 10, 2400)
        for f in FUNCS + ['mixed']:
            X('fn-' + f, 1, 9, 1500)
        X('fn-sin+fn-cos+fn-tan', 10, 10, 2400)
        X('fn-exp+fn-ln+fn-sqrt', 10, 10, 2400)
        X('fn-mixed', 10, 10, 2400)
        X('leaf', 1, 6, 1500)
        X('leaf', 7, 7, 2400)
        P('one', 1, 6, 1500, args=ARGS)
        P('one', 7, 7, 2400, args=ARGS[:2], tag='a')
        P('two', 1, 7, 2400)
        P('ugate', 1, 6, 2400)
        P('nested', 1, 5, 2400)
    return obs


from harness.c17_reg import g_offsets, g_stmt  # noqa: E402,F401  (CrossHair entry points)
from harness.c17_rt import s_entry  # noqa: E402,F401


def x_family(shard: dict, timeout: float) -> dict:
    from harness.c17_xp import run_x
    return run_x(shard, timeout * 0.9)


def p_family(shard: dict, timeout: float) -> dict:
    from harness.c17_xp import run_p
    return run_p(shard, timeout * 0.9)


def replay(shard: dict, cex: dict) -> tuple[bool, str]:
    from harness.c17_xp import replay_p, replay_x
    if cex.get('family') == 'X':
        return replay_x(cex)
    return replay_p(cex)
