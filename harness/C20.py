"""C20 - coupling-graph (G) and qudit-permutation (P) utilities match their textbook definitions.

(G) harness/c20_graph.py : every labelled graph on n vertices (one symbolic boolean per vertex pair,
    forked into a concrete edge list) x symbolic integer arguments (split by the solver ladder);
    the real CouplingGraph method runs natively and is compared with a reference written from the
    definitions.
(P) harness/c20_perm.py  : PermutationMatrix.from_qudit_location / gen_swap_unitary as exact 0/1
    matrices: for every (radix, location, basis column) the single 1 of the column sits in the row
    whose digit i is the column's digit location[i].
"""
from __future__ import annotations

import itertools as it

from harness.c20_graph import arity

PROPERTY = 'C20'
LEVEL = 'model_checking'
ENCODED = [
    'bqskit.qis.graph:CouplingGraph.{__init__,is_fully_connected,is_fully_connected_without,is_linear,'
    'get_neighbors_of,get_qudit_degrees,all_pairs_shortest_path,get_shortest_path_tree,get_subgraphs_of_size,'
    '_location_search,get_subgraph,get_induced_subgraph,relabel_subgraph,is_embedded_in,maximal_matching,'
    'get_rooted_minimum_span,__eq__,__hash__,__contains__,__iter__,__len__,all_to_all,linear,ring,star,grid,'
    'get_qpu_to_qudit_map,get_qudit_to_qpu_map,get_qpu_connectivity,get_individual_qpu_graphs,qpu_count,'
    'is_distributed,is_valid_coupling_graph}',
    'bqskit.ir.location:CircuitLocation.{__init__,is_location}',
    'bqskit.qis.permutation:PermutationMatrix.{from_qudit_location,from_qubit_location,gen_swap_unitary,'
    'is_permutation}', 'bqskit.qis.unitary.unitarybuilder:UnitaryBuilder.{apply_left,get_unitary}',
]
ASSUMPTIONS = [
    'graphs under test are built by CouplingGraph(sorted normalised edge list, n); other edge orders / '
    'orientations / num_qudits arguments are the subject of the ctor and hash obligations',
    'maximal_matching(randomize=True): bqskit.qis.graph.shuffle is replaced by a permutation decoded from '
    'symbolic integers, so every outcome of the shuffle is a path',
    'get_rooted_minimum_span is only required to work on connected graphs (its docstring: "connect root to '
    'every other node"); get_shortest_path_tree on a graph where some qudit is unreachable must raise',
    'get_subgraph / relabel_subgraph are called with renumberings that are permutations (their documented '
    'precondition); is_fully_connected_without needs n >= 2; ring(n) needs n >= 2',
    'QPUs are the connected components of the graph without its remote edges; the order of the QPU list is '
    'not prescribed, the other QPU views must be consistent with get_qpu_to_qudit_map',
    '(P) the positions of qudits that are not in `location` are not prescribed: the matrix must be the action '
    'of some qudit permutation that puts location[i] at position i',
]
BOUNDS = {
    'quick': 'every labelled graph on n<=5 vertices for is_fully_connected / degrees / all-pairs distances / is_linear / '
             'get_neighbors_of / get_shortest_path_tree / is_fully_connected_without (every qudit argument); n<=4 for '
             'get_subgraphs_of_size (sizes -1..n+1), get_rooted_minimum_span (every root), get_subgraph (every ordered '
             'location of <=3 qudits at n=4, default and every renumbering), get_induced_subgraph (every ordered '
             'location), is_embedded_in and == on every pair of graphs, every edge-list order (hash), maximal_matching '
             '(every ignore list in both orientations; every shuffle outcome), absent/local/remote edges (QPU views); '
             'n<=3 for constructor arguments and weighted edges (remote + one override); every graph with <=2 edges on '
             '10 vertices for get_subgraphs_of_size(1..3); relabel_subgraph on 3 vertices with labels 0..8; '
             'all_to_all/linear/ring/star up to 6 qudits, grids up to 3x3; (P) <=4 qubits, <=3 qutrits, swap radix <=5',
    'thorough': 'as quick, with n<=6 for the argument-free methods and is_linear, n<=5 for the one-integer methods, '
                'get_subgraph on n=4 with every location and on n=5 with every subset x every order x every '
                'renumbering (orders/renumberings enumerated inside the path), get_induced_subgraph n=5 (<=3 qudits), '
                'embedding pairs (<=4, 5) and (5, 3), matching n=5 (ignore lists, one orientation), qudit->QPU map n=5, '
                'weighted n=4, constructor n=4, <=2 edges on 12 vertices and 3 edges on 10 vertices, relabel on 3-4 '
                'vertices with labels 0..11, topologies up to 8 qudits / 4x4; (P) 5 qubits, 4 qutrits, <=3 ququarts',
}
OUTSIDE = ('graphs on more than 6 vertices other than the sparse family; random graphs up to 12 vertices of the '
           'statement (sampling is not this technique); more than one overridden edge weight; invalid arguments '
           'whose behaviour is not documented (non-permutation renumberings, out-of-range qudits); '
           'UnitaryMatrix/UnitaryBuilder tensor, power and apply algebra (engine E2, shared with C06)')


def prefixes(group: int, pairs: int) -> list[list[int]]:
    """Concrete values for the booleans of the first `pairs` vertex pairs (canonical ones only: a boolean
    that is never consulted because the edge is absent stays 0)."""
    per = {1: [[0], [1]], 2: [[0, 0], [1, 0], [1, 1]], 3: [[0, 0, 0], [1, 0, 0], [1, 1, 0], [1, 1, 1]],
           4: [[0, 0, 0], [1, 0, 0], [1, 1, 0]]}[group]
    return [sum(c, []) for c in it.product(per, repeat=pairs)]


GROUP = {'apsp_w': 2, 'ctor': 2, 'matching': 3, 'qpu_map': 2, 'qpu_q2q': 2, 'qpu_conn': 2, 'qpu_graphs': 2}


def obligations(tier: str) -> list[dict]:
    obs: list[dict] = []
    T = 420 if tier == 'quick' else 2700

    def ob(fam: str, split: int = 0, **S: int) -> None:
        S = dict(S, fam=fam)
        tag = '/'.join('%s%s' % (k, v) for k, v in S.items() if k != 'fam')
        group = 4 if fam == 'matching' and not S.get('orient') else GROUP.get(fam, 1)
        for fx in prefixes(group, split):
            sh = dict(S, fixed=fx) if split else dict(S)
            nb, ni = arity(sh)
            obs.append({'name': '%s/%s%s' % (fam, tag, '/fix' + ''.join(map(str, fx)) if split else ''),
                        'func': 'e_%d_%d' % (nb, ni), 'shard': sh, 'timeout': T})

    if tier == 'quick':
        ob('basic', nlo=1, nhi=4)                 # is_fully_connected + degrees/views + all-pairs (off-diagonal)
        ob('basic', n=5)
        ob('linear', nlo=1, nhi=5)
        ob('apsp_diag', nlo=1, nhi=4)
        ob('vertex', nlo=1, nhi=4)                # get_neighbors_of + shortest path tree + connected-without
        ob('vertex', 1, n=5)
        ob('span', nlo=1, nhi=4)
        ob('ksub', nlo=1, nhi=4)
        ob('subgraph', nlo=1, nhi=3)
        ob('subgraph', 2, n=4, mlo=1, mhi=3)
        ob('induced', nlo=2, nhi=4)
        ob('relabel', m=3, L=8)
        ob('embed', n1lo=1, n1hi=4, n2lo=1, n2hi=3)
        ob('embed', n1lo=1, n1hi=3, n2=4)
        ob('embed', 1, n1=4, n2=4)
        ob('eq', n1lo=1, n1hi=4, n2lo=1, n2hi=3)
        ob('eq', 1, n1=4, n2=4)
        ob('hash', nlo=1, nhi=4)
        ob('ctor', nlo=1, nhi=3)
        ob('matching', nlo=1, nhi=3, orient=1)
        ob('matching', 1, n=4, orient=1)
        ob('matching_rand', nlo=1, nhi=4)
        ob('topo', nmax=6, gmax=3)
        for part in ('map', 'q2q', 'conn', 'graphs'):
            ob('qpu_' + part, nlo=1, nhi=4)
        ob('apsp_w', nlo=1, nhi=3)
        ob('ksub_sparse', N=10, E=2, kmax=3)
    else:
        ob('basic', nlo=1, nhi=5)
        ob('basic', 3, n=6)
        ob('linear', nlo=1, nhi=5)
        ob('linear', 3, n=6)
        ob('apsp_diag', nlo=1, nhi=5)
        ob('vertex', nlo=1, nhi=4)
        ob('vertex', 2, n=5)
        for fam in ('span', 'ksub'):
            ob(fam, nlo=1, nhi=4)
            ob(fam, 1, n=5)
        ob('subgraph', nlo=1, nhi=3)
        ob('subgraph', 2, n=4, mlo=1, mhi=3)
        ob('subgraph', 3, n=4, mlo=4, mhi=4)
        ob('subgraph_all', 3, n=5)
        ob('induced', nlo=2, nhi=4)
        ob('induced', 4, n=5, mhi=3)
        ob('relabel', m=3, L=11)
        ob('relabel', 2, m=4, L=11, noren=1)
        ob('embed', n1lo=1, n1hi=4, n2lo=1, n2hi=3)
        ob('embed', n1lo=1, n1hi=3, n2=4)
        ob('embed', 1, n1=4, n2=4)
        ob('embed', n1lo=1, n1hi=3, n2=5)
        ob('embed', 4, n1=4, n2=5)
        ob('embed', n1=5, n2=3)
        ob('eq', n1lo=1, n1hi=4, n2lo=1, n2hi=3)
        ob('eq', 1, n1=4, n2=4)
        ob('hash', nlo=1, nhi=4)
        ob('ctor', nlo=1, nhi=3)
        ob('ctor', 1, n=4)
        ob('matching', nlo=1, nhi=3, orient=1)
        ob('matching', 1, n=4, orient=1)
        ob('matching', 3, n=5, orient=0)
        ob('matching_rand', nlo=1, nhi=4)
        ob('topo', nmax=8, gmax=4)
        for part in ('map', 'q2q', 'conn', 'graphs'):
            ob('qpu_' + part, nlo=1, nhi=4)
        ob('qpu_q2q', 3, n=5)                     # (get_qpu_to_qudit_map is checked in every qpu_* family)
        ob('apsp_w', nlo=1, nhi=3)
        ob('apsp_w', 2, n=4)
        ob('ksub_sparse', N=10, E=2, kmax=3)
        ob('ksub_sparse', N=12, E=2, kmax=3)
        for lo, hi in ((0, 2), (3, 6), (7, 11), (12, 18), (19, 42)):
            ob('ksub_sparse', N=10, E=3, kmax=3, first=[lo, hi])
    from harness.c20_perm import perm_obligations
    obs += perm_obligations(tier, T)
    return obs


# chworker imports the entry functions from this module
from harness.c20_entry import *  # noqa: E402,F401,F403
from harness.c20_perm import p_entry  # noqa: E402,F401
