"""C17 families (X) expression evaluation and (P) parameter binding: checks, reduction, replay."""
from __future__ import annotations

import math
import time
from typing import Any

from harness.c17_expr import (FUNCS, Injection, OracleSyntaxError, differ, evalf, features, fold, instantiate, pratt,
                              shapes, show, subst, value_of)

HEAD = 'OPENQASM 2.0;\ninclude "qelib1.inc";\n'
IDS = ['x0', 'x1', 'x2']

# qasm spelling -> gate class name (written from the OpenQASM 2 / qelib1 definitions)
CLASS_OF = {'rz': 'RZGate', 'rx': 'RXGate', 'ry': 'RYGate', 'U': 'U3Gate', 'u3': 'U3Gate', 'CX': 'CNOTGate',
            'cx': 'CNOTGate', 'h': 'HGate', 'x': 'XGate', 'u1': 'U1Gate', 'u2': 'U2Gate', 'crz': 'CRZGate'}


def decoder() -> Any:
    from bqskit.ir.lang.qasm2 import OPENQASM2Language
    return OPENQASM2Language()


def leaves_of(circ: Any) -> list[tuple[str, tuple, list]]:
    """Decoded circuit -> leaf operations [(class name, flat location, [param])] in program
    order, CircuitGates expanded with the OUTER operation's parameters (documented: the
    parameters of a CircuitGate operation are the concatenated parameters of its body)."""
    from bqskit.ir.gates.circuitgate import CircuitGate
    out: list = []

    def rec(gate: Any, loc: tuple, params: list) -> None:
        if isinstance(gate, CircuitGate):
            i = 0
            for op in gate._circuit:
                n = op.num_params
                rec(op.gate, tuple(loc[j] for j in op.location), list(params[i:i + n]))
                i += n
            if i != len(params):
                out.append(('param-count-mismatch', loc, []))
            return
        out.append((type(gate).__name__, tuple(int(q) for q in loc), list(params)))

    for op in circ:
        rec(op.gate, tuple(op.location), list(op.params))
    return out


# ----------------------------------------------------------------------------- (X)
_CACHE: dict[tuple, tuple] = {}


def x_check(tokens: list[str], timeout_ms: int = 20000) -> tuple:
    """One expression through the real decoder vs the oracle.
    -> ('ok',) | ('value', model) | ('rejects', exc name, message) | ('unknown', why)"""
    key = tuple(tokens)
    if key in _CACHE:
        return _CACHE[key]
    try:
        oracle = fold(pratt(list(tokens)))
    except OracleSyntaxError as e:   # the generator only emits grammatical expressions
        raise AssertionError('oracle cannot parse %r: %s' % (tokens, e))
    names = [n for n in IDS if n in tokens]
    text = HEAD + 'qreg q[1];\nrz(%s) q[0];\n' % ''.join(tokens)
    res: tuple
    try:
        with Injection(names):
            circ = decoder().decode(text)
            lv = leaves_of(circ)
            real = value_of(lv[0][2][0]) if len(lv) == 1 and len(lv[0][2]) == 1 else None
            shape_ok = len(lv) == 1 and lv[0][0] == 'RZGate' and lv[0][1] == (0,)
    except Exception as e:   # noqa
        res = ('rejects', type(e).__name__, str(e)[:160].replace('\n', ' '))
        _CACHE[key] = res
        return res
    if not shape_ok or real is None:
        res = ('value', {}, 'decoded operation list %r' % (lv,))
    else:
        st, model = differ([(real, oracle)], [], names, timeout_ms)
        if st == 'unsat':
            res = ('ok',)
        elif st == 'sat':
            res = ('value', model, 'decoder computes %s ; OpenQASM 2 value is %s' % (show(real), show(oracle)))
        else:
            res = ('unknown', st)
    _CACHE[key] = res
    return res


def spans(tokens: list[str]) -> list[tuple[int, int]]:
    """Token spans [s, e) of every proper sub-expression (by the oracle grammar)."""
    out: list[tuple[int, int]] = []
    n = len(tokens)
    for s in range(n):
        for e in range(s + 1, n + 1):
            if (s, e) == (0, n):
                continue
            sub = tokens[s:e]
            try:
                pratt(list(sub))
            except (OracleSyntaxError, IndexError):
                continue
            # the span must be a sub-expression of the whole: replacing it by a leaf keeps the
            # whole grammatical AND gives the same tree as substituting the sub-tree
            try:
                whole = pratt(tokens[:s] + ['zz'] + tokens[e:])
                if subst(whole, {'zz': pratt(list(sub))}) != pratt(list(tokens)):
                    continue
            except (OracleSyntaxError, IndexError):
                continue
            out.append((s, e))
    return out


def x_reduce(tokens: list[str], check: Any = None, pool: list[str] | None = None) -> list[str]:
    """Greedy reduction of a failing expression to a locally minimal failing one (sub-expression
    alone, or sub-expression replaced by a leaf)."""
    check = check or (lambda t: x_check(t)[0])
    pool = pool or IDS
    cur = list(tokens)
    kind = check(cur)
    changed = True
    while changed:
        changed = False
        cands = []
        for (s, e) in spans(cur):
            if e - s > 1:
                fresh = next((n for n in pool if n not in cur[:s] + cur[e:]), pool[0])
                cands.append(cur[:s] + [fresh] + cur[e:])
            cands.append(cur[s:e])
        cands.sort(key=len)
        for c in cands:
            if len(c) < len(cur) and check(c) == kind:
                cur, changed = c, True
                break
    return cur


def x_fingerprint(tokens: list[str], res: tuple) -> str:
    f = features(tuple('F' if t in FUNCS else t for t in tokens))
    fns = sorted({t for t in tokens if t in FUNCS})
    if res[0] == 'rejects':
        return 'X:rejects:%s:%s' % (res[1], '+'.join(fns) or f)
    return 'X:value:%s' % f


def x_items(shard: dict) -> list[list[str]]:
    """Token lists of one obligation."""
    out = []
    for n in range(shard['nmin'], shard['nmax'] + 1):
      for group in shard['group'].split('+'):
        for sh in shapes(n):
            hasF = 'F' in sh
            if group == 'base':
                if hasF:
                    continue
                out.append(instantiate(sh, IDS, ['sin'], ['2', '3']))
                if sh.count('K') >= 1:
                    out.append(instantiate(sh, IDS, ['sin'], ['3', '2']))
            elif group.startswith('fn-'):
                if not hasF:
                    continue
                f = group[3:]
                if f == 'mixed':     # several function slots: all rotations of the six names
                    if sh.count('F') >= 2:
                        for i in range(len(FUNCS)):
                            out.append(instantiate(sh, IDS, FUNCS[i:] + FUNCS[:i], ['2', '3']))
                else:
                    out.append(instantiate(sh, IDS, [f], ['2', '3']))
            elif group == 'leaf':
                nl = sh.count('L')
                for i in range(nl):
                    for lit in ('pi', '3', '0.5', '2e-1'):
                        leaves = [IDS[j % 3] for j in range(nl)]
                        leaves[i] = lit
                        # leaf list is consumed cyclically; give exactly nl entries
                        out.append(instantiate(sh, leaves, ['cos'], ['2', '3']))
            else:
                raise AssertionError(group)
    seen, uniq = set(), []
    for t in out:
        if tuple(t) not in seen:
            seen.add(tuple(t))
            uniq.append(t)
    return uniq


def run_x(shard: dict, timeout: float) -> dict:
    t0 = time.time()
    known = set(shard.get('_known', []))
    items = x_items(shard)
    n = reached = 0
    known_hits: dict[str, int] = {}
    unknown = []
    for toks in items:
        if time.time() - t0 > timeout:
            return {'status': 'inconclusive', 'paths': n, 'reached': reached, 'queries': n,
                    'detail': 'time budget exhausted after %d of %d expressions' % (n, len(items))}
        n += 1
        res = x_check(toks)
        if res[0] == 'ok':
            reached += 1
            continue
        if res[0] == 'unknown':
            unknown.append(''.join(toks))
            continue
        reached += 1
        small = x_reduce(toks)
        sres = x_check(small)
        fp = x_fingerprint(small, sres)
        if fp in known:
            known_hits[fp] = known_hits.get(fp, 0) + 1
            continue
        return {'status': 'refuted', 'paths': n, 'reached': reached, 'queries': n, 'solver_s': 0,
                'cex': {'family': 'X', 'tokens': small, 'found_in': ''.join(toks), 'values': sres[1] if sres[0] == 'value' else {},
                        'fingerprint': fp, 'what': sres[2] if len(sres) > 2 else sres[1]},
                'detail': '%s: %s' % (''.join(small), sres[-1])}
    st = 'discharged' if not unknown else 'inconclusive'
    return {'status': st, 'paths': n, 'reached': reached, 'queries': n, 'known_hits': known_hits,
            'detail': '%d expressions, %d solver-undecided %s' % (n, len(unknown), unknown[:3])}


def close(a: float, b: float) -> bool:
    if math.isnan(a) or math.isnan(b):
        return math.isnan(a) and math.isnan(b)
    return abs(a - b) <= 1e-9 * (1 + abs(a) + abs(b))


def lit(v: float) -> str:
    """A non-negative float as an OpenQASM REAL literal."""
    assert v >= 0
    s = repr(float(v))
    return s


def replay_x(cex: dict) -> tuple[bool, str]:
    """Plain interpreter, numeric: the expression with literals in place of the identifiers
    (values >= 0) - or, when the witness needs a negative leaf, the identifiers bound to plain
    floats in eval_locals - decoded by the unmodified decoder and compared with the oracle."""
    from vf import rt
    toks = list(cex['tokens'])
    vals = {k: float(v) for k, v in cex.get('values', {}).items() if k in IDS}
    for n in IDS:
        if n in toks and n not in vals:
            vals[n] = {'x0': 0.75, 'x1': 1.25, 'x2': 0.5}[n]
    oracle_ast = pratt(list(toks))
    if all(v >= 0 for v in vals.values()):
        ltoks = [lit(vals[t]) if t in vals else t for t in toks]
        text = HEAD + 'qreg q[1];\nrz(%s) q[0];\n' % ''.join(ltoks)
        rt.log('program:', repr(text))
        try:
            circ = decoder().decode(text)
        except Exception as e:  # noqa
            rt.fingerprint(cex['fingerprint'])
            return True, 'decoder raised %s: %s on the valid OpenQASM 2 expression %s' % (
                type(e).__name__, str(e)[:200], ''.join(ltoks))
        got = float(list(circ)[0].params[0])
        inj = ''
    else:
        text = HEAD + 'qreg q[1];\nrz(%s) q[0];\n' % ''.join(toks)
        rt.log('program:', repr(text), 'with', vals, 'bound in eval_locals (numeric)')
        try:
            with Injection(list(vals), values=vals):
                circ = decoder().decode(text)
        except Exception as e:  # noqa
            rt.fingerprint(cex['fingerprint'])
            return True, 'decoder raised %s: %s' % (type(e).__name__, str(e)[:200])
        got = float(list(circ)[0].params[0])
        inj = ' (identifiers bound numerically: %r)' % vals
    try:
        want = float(evalf(oracle_ast, vals))
    except Exception as e:  # noqa
        return False, 'oracle value undefined at the witness (%s)' % e
    rt.log('decoded parameter', got, '; OpenQASM 2 value', want)
    if not close(got, want):
        rt.fingerprint(cex['fingerprint'])
        return True, 'rz(%s)%s decodes to parameter %r, OpenQASM 2 precedence gives %r' % (
            ''.join(toks if inj else ltoks), inj, got, want)
    return False, 'decoded %r equals the oracle value %r' % (got, want)


# ----------------------------------------------------------------------------- (P)
def p_build(shard: dict, E: list[str], extra: Any = None) -> dict:
    """Program description
    {'defs': [(name, [formal params], [qubit names], [(callee, [[expr tokens]], [qubit names])])],
     'calls': [(callee, [[arg tokens]], [flat qubit index])], 'nq': n}"""
    tpl = shard['tpl']
    if tpl == 'one':
        return {'defs': [('foo', ['t'], ['a'], [('rz', [E], ['a'])])], 'calls': [('foo', [extra], [0])], 'nq': 1}
    if tpl == 'two':
        return {'defs': [('foo', ['t', 'u'], ['a'], [('rz', [E], ['a'])])],
                'calls': [('foo', [['x0'], ['x1']], [0])], 'nq': 1}
    if tpl == 'ugate':
        return {'defs': [('foo', ['t', 'u'], ['a', 'b'],
                          [('CX', [], ['a', 'b']), ('U', [E, ['u'], ['t']], ['b']),
                           ('cx', [], ['b', 'a']), ('rz', [['0.25']], ['a']),
                           ('U', [['pi'], E, ['t', '/', 'u']], ['a'])])],
                'calls': [('foo', [['x0'], ['x1']], [2, 0]), ('foo', [['x1'], ['x0']], [0, 1])], 'nq': 3}
    if tpl == 'nested':
        return {'defs': [('bar', ['s'], ['a'], [('rz', [extra], ['a'])]),
                         ('foo', ['t'], ['a'], [('bar', [E], ['a']), ('rx', [['t']], ['a'])])],
                'calls': [('foo', [['x0']], [0])], 'nq': 1}
    raise AssertionError(tpl)


def p_items(shard: dict) -> list[tuple[list[str], Any, list[str]]]:
    """(E tokens, extra, leaf pool) of one obligation; program = p_build(shard, E, extra)."""
    tpl = shard['tpl']
    out: list = []

    def inst(sh: tuple, leaves: list[str]) -> list[str]:
        return instantiate(sh, leaves, shard.get('fns', ['cos', 'ln']), ['2', '3'])

    if tpl == 'nested':
        for n1 in range(1, shard['nmax'] + 1):
            for n2 in range(1, shard['nmax'] + 1):
                for s1 in shapes(n1):
                    for s2 in shapes(n2):
                        out.append((inst(s1, ['t']), inst(s2, ['s']), ['t']))
        return out
    for n in range(shard['nmin'], shard['nmax'] + 1):
        for sh in shapes(n):
            if tpl == 'one':
                for args in shard['args']:
                    out.append((inst(sh, ['t']), args, ['t']))
            elif tpl == 'two':
                out.append((inst(sh, ['t', 'u']), None, ['t', 'u']))
                if sh.count('L') > 1:
                    out.append((inst(sh, ['u', 't']), None, ['u', 't']))
            else:
                out.append((inst(sh, ['t', 'u']), None, ['t', 'u']))
    return out


def p_text(prog: dict, literal: dict[str, str] | None = None) -> str:
    def ex(toks: list[str]) -> str:
        return ''.join(literal.get(t, t) if literal else t for t in toks)

    s = HEAD + 'qreg q[%d];\n' % prog['nq']
    for (name, formals, qubits, body) in prog['defs']:
        s += 'gate %s(%s) %s {\n' % (name, ','.join(formals), ','.join(qubits))
        for (callee, exps, qs) in body:
            if callee == 'CX':
                s += '  CX %s;\n' % ','.join(qs)
            elif exps:
                s += '  %s(%s) %s;\n' % (callee, ','.join(''.join(e) for e in exps), ','.join(qs))
            else:
                s += '  %s %s;\n' % (callee, ','.join(qs))
        s += '}\n'
    for (callee, args, qs) in prog['calls']:
        s += '%s(%s) %s;\n' % (callee, ','.join(ex(a) for a in args), ','.join('q[%d]' % q for q in qs))
    return s


def p_expected(prog: dict) -> list[tuple[str, tuple, list[tuple]]]:
    """OpenQASM 2 semantics of gate calls: formal parameters are bound to the VALUES of the
    argument expressions; qubit arguments are bound positionally; bodies expand in order."""
    defs = {d[0]: d for d in prog['defs']}
    out: list = []

    def call(callee: str, argvals: list[tuple], qubits: list[int]) -> None:
        if callee in defs:
            _, formals, qnames, body = defs[callee]
            env = dict(zip(formals, argvals))
            qenv = dict(zip(qnames, qubits))
            for (c2, exps, qs) in body:
                call(c2, [subst(pratt(list(e)), env) for e in exps], [qenv[q] for q in qs])
        else:
            out.append((CLASS_OF[callee], tuple(qubits), [fold(a) for a in argvals]))

    for (callee, args, qs) in prog['calls']:
        call(callee, [pratt(list(a)) for a in args], list(qs))
    return out


def p_check(prog: dict, timeout_ms: int = 20000) -> tuple:
    """-> ('ok', nbranches) | ('value', model, decisions, what) | ('structure', what) |
          ('rejects', exc, msg) | ('unknown', why)"""
    text = p_text(prog)
    exp = p_expected(prog)
    names = sorted({t for (_, args, _) in prog['calls'] for a in args for t in a if t in IDS})
    stack: list[list[int]] = [[]]
    branches = 0
    while stack:
        prefix = stack.pop()
        try:
            with Injection(names, prefix) as D:
                circ = decoder().decode(text)
                got = [(g, loc, [value_of(p) for p in ps]) for (g, loc, ps) in leaves_of(circ)]
                taken, cons = list(D.taken), list(D.constraints)
        except Exception as e:   # noqa
            return ('rejects', type(e).__name__, str(e)[:160].replace('\n', ' '))
        # enumerate the sibling branches of every decision taken beyond the prefix
        for i in range(len(prefix), len(taken)):
            if taken[i] == 0:
                stack.append(taken[:i] + [1])
        if [(g, l, len(p)) for g, l, p in got] != [(g, l, len(p)) for g, l, p in exp]:
            return ('structure', 'decoded %r, expected %r' % ([(g, l) for g, l, _ in got], [(g, l) for g, l, _ in exp]))
        pairs = [(r, o) for (_, _, ps), (_, _, es) in zip(got, exp) for r, o in zip(ps, es)]
        st, model = differ(pairs, cons, names, timeout_ms)
        if st == 'infeasible':
            continue
        branches += 1
        if st == 'sat':
            bad = [(show(r), show(o)) for r, o in pairs]
            return ('value', model, taken, 'decoder / OpenQASM 2 parameter values: %r under text-sign decisions %r'
                    % (bad, [(show(c[0]), '-' + c[2] if c[1] else c[2]) for c in cons]))
        if st != 'unsat':
            return ('unknown', st)
    return ('ok', branches)


def run_p(shard: dict, timeout: float) -> dict:
    t0 = time.time()
    known = set(shard.get('_known', []))
    items = p_items(shard)
    n = reached = 0
    known_hits: dict[str, int] = {}
    unknown = 0
    memo: dict[tuple, tuple] = {}

    def chk(E: list[str], extra: Any) -> tuple:
        k = (tuple(E), tuple(extra) if extra else None)
        if k not in memo:
            memo[k] = p_check(p_build(shard, E, extra))
        return memo[k]

    def kind_of(r: tuple) -> Any:
        return (r[0], any(r[2])) if r[0] == 'value' else r[0]

    for (E, extra, pool) in items:
        if time.time() - t0 > timeout:
            return {'status': 'inconclusive', 'paths': n, 'reached': reached, 'queries': n,
                    'detail': 'time budget exhausted after %d of %d programs' % (n, len(items))}
        res = chk(E, extra)
        if res[0] == 'ok':
            n += res[1]
            reached += res[1]
            continue
        n += 1
        if res[0] == 'unknown':
            unknown += 1
            continue
        reached += 1
        small = x_reduce(E, lambda t: kind_of(chk(t, extra)), pool)
        both = list(small)
        if shard['tpl'] == 'nested':     # the inner body is reduced as well
            extra = x_reduce(extra, lambda t: kind_of(chk(small, t)), ['s'])
            both = both + ['+'] + list(extra)
        res = chk(small, extra)
        feat = features(tuple('F' if t in FUNCS else t for t in both))
        if res[0] == 'value':
            fp = 'P:value:%s:%s' % ('negative-argument' if any(res[2]) else 'nonnegative-argument', feat)
            vals = res[1]
        elif res[0] == 'structure':
            fp, vals = 'P:structure:%s' % shard['tpl'], {}
        else:
            fp, vals = 'P:rejects:%s:%s' % (res[1], feat), {}
        if fp in known:
            known_hits[fp] = known_hits.get(fp, 0) + 1
            continue
        prog = p_build(shard, small, extra)
        return {'status': 'refuted', 'paths': n, 'reached': reached, 'queries': n,
                'cex': {'family': 'P', 'prog': prog, 'values': vals, 'fingerprint': fp, 'what': res[-1]},
                'detail': p_text(prog) + ' :: ' + str(res[-1])}
    return {'status': 'discharged' if not unknown else 'inconclusive', 'paths': n, 'reached': reached, 'queries': n,
            'known_hits': known_hits, 'detail': '%d programs, %d branches, %d undecided' % (len(items), n, unknown)}


def replay_p(cex: dict) -> tuple[bool, str]:
    """The program with numeric literal arguments through the unmodified decoder; leaf
    parameters compared numerically with the value semantics of gate calls."""
    from vf import rt
    prog = cex['prog']
    vals = {k: float(v) for k, v in cex.get('values', {}).items() if k in IDS}
    for n in IDS:
        vals.setdefault(n, {'x0': -0.5, 'x1': 1.25, 'x2': 0.75}[n])
    literal = {k: (lit(v) if v >= 0 else '-' + lit(-v)) for k, v in vals.items()}
    text = p_text(prog, literal)
    rt.log('program:\n' + text)
    try:
        circ = decoder().decode(text)
    except Exception as e:  # noqa
        rt.fingerprint(cex['fingerprint'])
        return True, 'decoder raised %s: %s' % (type(e).__name__, str(e)[:200])
    got = leaves_of(circ)
    exp = p_expected(prog)
    rt.log('decoded leaves :', [(g, l, [float(p) for p in ps]) for g, l, ps in got])
    try:
        want = [(g, l, [float(evalf(a, vals)) for a in ps]) for g, l, ps in exp]
    except Exception as e:  # noqa
        return False, 'oracle value undefined at the witness (%s)' % e
    rt.log('expected leaves:', want)
    if [(g, l, len(p)) for g, l, p in got] != [(g, l, len(p)) for g, l, p in want]:
        rt.fingerprint(cex['fingerprint'])
        return True, 'decoded gate/location list differs from the program'
    for (g, l, ps), (_, _, ws) in zip(got, want):
        for a, b in zip(ps, ws):
            if not close(float(a), b):
                rt.fingerprint(cex['fingerprint'])
                return True, '%s@%s decoded with parameter %r, gate-call semantics give %r' % (g, l, float(a), b)
    return False, 'all leaf parameters agree'
