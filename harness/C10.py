"""C10 - every circuit-rewriting pass preserves its target (partial).

(R) rule templates, exact: the template circuit each rule pass builds in its constructor is
    simulated by the real Circuit.get_unitary and compared with the source gate's matrix as
    exact algebraic numbers; z3 decides equality (kind 'direct').
(S) structural substitution (kind 'ch'): the real pass runs on circuits with symbolic op
    positions; every occurrence of the source gate is replaced at its own location by the
    template, in order, everything else untouched.
(N) control logic of ScanningGateRemovalPass with the optimiser stubbed: a removal is kept
    iff the stub cost is below the threshold (accept bits symbolic), order preserved.
(A) analytic single-qubit decompositions (U3Decomposition / ZXZXZDecomposition / U3Gate.
    calc_params): the real numeric code on every input unitary e^{ia} U3(t,p,l) whose four
    angles lie on the grid of multiples of pi/4 (all branch points of phase/arctan2/mod are on
    this grid), compared numerically up to global phase. This part is a solver-enumerated finite
    grid, not a claim over all unitaries.
"""
from __future__ import annotations

from typing import Any

from vf import rt

PROPERTY = 'C10'
LEVEL = 'model_checking'
RULE = ('one case = one rule identity / one circuit shape through a pass / one accept pattern / one grid unitary; '
        'non-trivial = the pass changed the circuit')
RULES = {
    'CHToCNOTPass': 'CHGate', 'CNOTToCHPass': 'CNOTGate', 'CNOTToCYPass': 'CNOTGate', 'CNOTToCZPass': 'CNOTGate',
    'CYToCNOTPass': 'CYGate', 'CZToCNOTPass': 'CZGate', 'SwapToCNOTPass': 'SwapGate',
}
ENCODED = [
    'bqskit.passes.rules.{ch2cnot,cnot2ch,cnot2cy,cnot2cz,cy2cnot,cz2cnot,swap2cnot}:__init__/run',
    'bqskit.passes.rules.u3:U3Decomposition.run', 'bqskit.passes.rules.zxzxz:ZXZXZDecomposition.run',
    'bqskit.ir.gates.parameterized.u3:U3Gate.calc_params', 'bqskit.passes.processing.scan:ScanningGateRemovalPass.run',
    'bqskit.passes.util.unfold:UnfoldPass', 'bqskit.passes.util.compress:CompressPass',
    'bqskit.ir.circuit:Circuit.batch_replace/unfold_all/get_unitary',
]
ASSUMPTIONS = [
    '(R) constant gate matrices are read from the numeric evaluation as exact algebraic numbers (vf.sym.exact_of_float)',
    '(S)/(N) other operations are harness-tagged gates; (N) Circuit.instantiate is stubbed to a no-op and the cost '
    'callable returns 0 or 1 according to a symbolic accept bit per candidate',
    '(A) inputs restricted to the pi/4 angle grid plus a near-degenerate family (theta within 1e-5..1e-2 of 0, pi/2, pi, 3pi/2, 2pi); tolerance 1e-7',
]
BOUNDS = {
    'quick': '(R) 7 rules; (S) 7 rules x circuits of <=3 ops on <=3 qubits; (N) <=3 ops, both scan directions; '
             '(A) grid 8^3 x 2 phases for U3Decomposition and ZXZXZ (both flag settings)',
    'thorough': '(S) <=4 ops incl. pre-pop gaps; (N) <=4 ops; (A) grid 8^4',
}
OUTSIDE = ('QSD, Block-ZXZ, diagonal.py, extract_diagonal.py, qfast, qpredict, pas, GeneralSQDecomposition on non-qubits, '
           'utils/math.py (LAPACK/scipy), the numerical contract of every optimiser-driven pass, retargeting passes '
           '(rebase) beyond their rule templates')


MODS = {'CHToCNOTPass': 'ch2cnot', 'CNOTToCHPass': 'cnot2ch', 'CNOTToCYPass': 'cnot2cy', 'CNOTToCZPass': 'cnot2cz',
        'CYToCNOTPass': 'cy2cnot', 'CZToCNOTPass': 'cz2cnot', 'SwapToCNOTPass': 'swap2cnot'}


def _rules() -> Any:
    import importlib
    import bqskit.ir.gates as G
    return {name: (getattr(importlib.import_module('bqskit.passes.rules.' + MODS[name]), name), getattr(G, src))
            for name, src in RULES.items()}


def check_rule(shard: dict, timeout: float) -> dict:
    import numpy as np
    import sympy as sp
    from vf import nra, sym
    name = shard['rule']
    cls, src = _rules()[name]
    p = cls()
    tmpl = p.cg._circuit
    U = sym.to_matrix(np.array(tmpl.get_unitary().numpy))
    V = sym.to_matrix(np.array(src().get_unitary().numpy))
    r = nra.decide_zero(nra.matrix_entries(U - V), [], timeout)
    out = {'status': r['status'], 'queries': r.get('queries', 0), 'solver_s': r.get('solver_s', 0.0),
           'detail': '%s template %r vs %s' % (name, tmpl, src.__name__)}
    if r['status'] == 'refuted':
        out['cex'] = {'rule': name}
    # advertised postcondition: the template does not contain the source gate
    if any(isinstance(op.gate, src) for op in tmpl):
        out['status'] = 'refuted'
        out['cex'] = {'rule': name, 'why': 'template contains the source gate'}
    return out


def replay(shard: dict, cex: dict) -> tuple[bool, str]:
    import numpy as np
    if 'rule' in cex:
        cls, src = _rules()[cex['rule']]
        tmpl = cls().cg._circuit
        d = float(np.abs(tmpl.get_unitary().numpy - src().get_unitary().numpy).max())
        has = any(isinstance(op.gate, src) for op in tmpl)
        return (d > 1e-9 or has), '%s: |template - gate| = %g, template contains source gate: %s' % (cex['rule'], d, has)
    return False, 'unknown counterexample'


# ---- (S) structural substitution ------------------------------------------------------------

def _drive(coro: Any) -> Any:
    try:
        coro.send(None)
    except StopIteration as e:
        return e.value
    raise RuntimeError('pass awaited the runtime')


@rt.natively
def _subst_body(x0: int, x1: int, x2: int, x3: int, x4: int, x5: int, x6: int, x7: int, x8: int, x9: int, x10: int,
      x11: int, x12: int, x13: int, x14: int, x15: int, x16: int, x17: int, x18: int, x19: int, x20: int,
      x21: int, s0: int, s1: int, s2: int, s3: int) -> bool:
    from bqskit.compiler.passdata import PassData
    from bqskit.ir.circuit import Circuit
    from harness.circ_common import Tags, build_pre
    from vf.circ_oracle import Viol, check_invariant, flat_of, top_seqs
    rt.begin()
    S = rt.SHARD
    W, npre, name = S['W'], S['npre'], S['rule']
    xs = [x0, x1, x2, x3, x4, x5, x6, x7, x8, x9, x10, x11, x12, x13, x14, x15, x16, x17, x18, x19, x20,
          x21][:5 * npre + 2]
    circ = build_pre(W, npre, xs, Tags())
    if circ is None:
        return True
    sel = [rt.P(s, 0, 1) for s in [s0, s1, s2, s3][:npre]]

    def run() -> Any:
        cls, src = _rules()[name]
        # turn the selected 2-qudit tagged gates into the source gate (same location)
        k = 0
        pts = []
        for c, op in list(circ.operations_with_cycles()):
            if op.num_qudits == 2 and hasattr(op.gate, 'tag'):
                if sel[k % len(sel)]:
                    pts.append((c, op.location[0], tuple(op.location)))
                k += 1
        for c, q, loc in pts:
            circ.replace_gate((c, q), src(), loc)
        before = [[(c, op, j) for (c, op, j) in seq] for seq in top_seqs(circ)]
        p = cls()
        tflat = flat_of(p.cg._circuit)
        exp = []
        for q, seq in enumerate(before):
            line = []
            for (c, op, j) in seq:
                if isinstance(op.gate, src):
                    line.extend(tflat[j])
                else:
                    from vf.circ_oracle import _flat_op
                    line.extend(_flat_op(op, j))
            exp.append(tuple(line))
        data = PassData(Circuit(W))
        _drive(p.run(circ, data))
        got = flat_of(circ)
        left = [op for op in circ if isinstance(op.gate, src)]
        try:
            check_invariant(circ, name)
            inv = None
        except Viol as v:
            inv = v.fp
        return tuple(exp), got, len(left), inv, len(pts)
    try:
        exp, got, left, inv, nsrc = rt.nt(run)
    except Exception as e:
        if rt.CONCRETE:
            rt.log('pass raised', repr(e))
        rt.reach()
        return rt.fail('%s:raised:%s' % (name, type(e).__name__))
    rt.reach()
    if rt.CONCRETE:
        rt.log('rule', name, 'sources', nsrc, 'expected', exp)
        rt.log('got', got)
    if left:
        return rt.fail('%s:source-gate-left' % name)
    if got != exp:
        return rt.fail('%s:substitution-order' % name)
    if inv:
        return rt.fail('%s:invariant:%s' % (name, inv))
    return True


def subst(x0: int, x1: int, x2: int, x3: int, x4: int, x5: int, x6: int, x7: int, x8: int, x9: int, x10: int,
          x11: int, x12: int, x13: int, x14: int, x15: int, x16: int, x17: int, x18: int, x19: int, x20: int,
          x21: int, s0: int, s1: int, s2: int, s3: int) -> bool:
    """
    post: _
    """
    return _subst_body(x0, x1, x2, x3, x4, x5, x6, x7, x8, x9, x10, x11, x12, x13, x14, x15, x16, x17, x18, x19, x20, x21, s0, s1, s2, s3)


# ---- (N) scanning gate removal control logic ------------------------------------------------

@rt.natively
def _scan_body(x0: int, x1: int, x2: int, x3: int, x4: int, x5: int, x6: int, x7: int, x8: int, x9: int, x10: int,
      x11: int, x12: int, x13: int, x14: int, x15: int, x16: int, x17: int, x18: int, x19: int, x20: int,
      x21: int, b0: int, b1: int, b2: int, b3: int, f0: int, f1: int, f2: int, f3: int, left: int) -> bool:
    from bqskit.compiler.passdata import PassData
    from bqskit.ir.circuit import Circuit
    from bqskit.passes.processing.scan import ScanningGateRemovalPass
    from bqskit.qis.unitary.unitarymatrix import UnitaryMatrix
    from harness.circ_common import Tags, build_pre
    from vf.circ_oracle import flat_of
    rt.begin()
    S = rt.SHARD
    W, npre = S['W'], S['npre']
    xs = [x0, x1, x2, x3, x4, x5, x6, x7, x8, x9, x10, x11, x12, x13, x14, x15, x16, x17, x18, x19, x20,
          x21][:5 * npre + 2]
    circ = build_pre(W, npre, xs, Tags())
    if circ is None:
        return True
    accept = [rt.P(b, 0, 1) for b in [b0, b1, b2, b3][:npre]]
    collect = [1] * npre if S.get('collect_all') else [rt.P(f, 0, 1) for f in [f0, f1, f2, f3][:npre]]
    from_left = bool(S['left']) if 'left' in S else bool(rt.P(left, 0, 1))

    def run() -> Any:
        import numpy as np
        tags = sorted({e[0] for line in flat_of(circ) for e in line if isinstance(e[0], int)})
        acc = {t: accept[i % len(accept)] for i, t in enumerate(tags)}
        col = {t: collect[i % len(collect)] for i, t in enumerate(tags)}
        state = {'prev': None}

        def tagset(c: Any) -> set:
            return {e[0] for line in flat_of(c) for e in line}
        tried: list = []

        from bqskit.ir.opt.cost.generator import CostFunctionGenerator

        class StubCost(CostFunctionGenerator):
            def gen_cost(self, circuit: Any, target: Any) -> Any:     # pragma: no cover
                raise NotImplementedError()

            def calc_cost(self, circuit: Any, target: Any) -> float:
                return cost(circuit, target)

        def cost(c: Any, target: Any) -> float:
            # which tag is missing relative to the circuit it was copied from?
            cur = tagset(c)
            missing = [t for t in tags if t not in cur and t not in state.get('gone', set())]
            # the missing tags all belong to the one operation just removed (a block carries several):
            # the stub accepts by the smallest of them
            t = missing[0] if missing else None
            tried.append(t)
            ok = t is not None and acc.get(t, 0) == 1
            if ok:
                state.setdefault('gone', set()).update(missing)
            return 0.0 if ok else 1.0
        orig = Circuit.instantiate
        Circuit.instantiate = lambda self, *a, **k: self      # type: ignore
        try:
            def filt(op: Any) -> bool:
                t = getattr(op.gate, 'tag', None)
                return t is None or col.get(t, 1) == 1
            p = ScanningGateRemovalPass(start_from_left=from_left, success_threshold=0.5, cost=StubCost(),
                                        collection_filter=filt)
            data = PassData(Circuit(W))
            data._target = UnitaryMatrix(np.eye(2 ** W))
            before = flat_of(circ)
            nb = circ.num_operations
            from harness.circ_common import tagset as op_tags
            ops_before = [(sorted(op_tags(op)), filt(op)) for op in circ]
            _drive(p.run(circ, data))
        finally:
            Circuit.instantiate = orig                       # type: ignore
        # per OPERATION: removed iff the filter collects it and the stub accepts its removal; a block
        # (CircuitGate, several tags, always collected by this filter) goes or stays as a whole
        removed = set()
        for ts, collected in ops_before:
            ints = [t for t in ts if isinstance(t, int)]
            if ints and collected and acc[ints[0]] == 1:
                removed.update(ints)
        exp = tuple(tuple(e for e in line if e[0] not in removed) for line in before)
        return exp, flat_of(circ), nb, circ.num_operations, tried
    try:
        exp, got, nb, na, tried = rt.nt(run)
    except Exception as e:
        if rt.CONCRETE:
            rt.log('scan raised', repr(e))
        rt.reach()
        return rt.fail('scan:raised:%s' % type(e).__name__)
    rt.reach()
    if rt.CONCRETE:
        rt.log('accept', accept, 'collect', collect, 'from_left', from_left, 'tried', tried)
        rt.log('expected', exp)
        rt.log('got', got)
    if na > nb:
        return rt.fail('scan:gate-count-increased')
    if got != exp:
        return rt.fail('scan:wrong-operations-removed')
    return True


def scan(x0: int, x1: int, x2: int, x3: int, x4: int, x5: int, x6: int, x7: int, x8: int, x9: int, x10: int,
         x11: int, x12: int, x13: int, x14: int, x15: int, x16: int, x17: int, x18: int, x19: int, x20: int,
         x21: int, b0: int, b1: int, b2: int, b3: int, f0: int, f1: int, f2: int, f3: int, left: int) -> bool:
    """
    post: _
    """
    return _scan_body(x0, x1, x2, x3, x4, x5, x6, x7, x8, x9, x10, x11, x12, x13, x14, x15, x16, x17, x18, x19, x20, x21, b0, b1, b2, b3, f0, f1, f2, f3, left)


# ---- (A) analytic decompositions on the pi/4 grid -------------------------------------------

NEAR = [(0, 1e-2), (0, 1e-3), (0, 3e-4), (0, 1e-5), (0, -1e-3), (4, -1e-3), (4, 3e-4), (4, 1e-5), (2, 1e-3), (2, -1e-4),
        (8, -1e-3), (6, 1e-3)]


@rt.natively
def _analytic_body(a: int, t: int, p: int, l: int) -> bool:
    rt.begin()
    S = rt.SHARD
    which = S['which']
    ai = rt.P(a, 0, S.get('na', 1))          # global phase index
    near = S.get('near', False)
    ti, pi_, li = rt.P(t, 0, len(NEAR) - 1 if near else 7), rt.P(p, 0, 7), rt.P(l, 0, 7)

    def run() -> Any:
        import numpy as np
        from bqskit.compiler.passdata import PassData
        from bqskit.ir.circuit import Circuit
        from bqskit.ir.gates import ConstantUnitaryGate, U3Gate, RXGate, U1Gate
        from bqskit.passes.rules.u3 import U3Decomposition
        from bqskit.passes.rules.zxzxz import ZXZXZDecomposition
        ang = [k * np.pi / 4 for k in (ti, pi_, li)]
        if near:
            # near-degenerate rotations: a small distance off the branch points of phase / arctan2 / isclose-style
            # shortcuts (theta near 0, pi/2, pi, 2 pi), where a tolerance-based special case would misfire
            base, off = NEAR[ti]
            ang[0] = base * np.pi / 4 + off
            ang[1] += 0.1 * (pi_ % 3)
        U = np.exp(1j * ai * np.pi / 4 * 1.0) * U3Gate().get_unitary(ang).numpy
        if which == 'calc_params':
            from bqskit.qis.unitary.unitarymatrix import UnitaryMatrix
            prm = U3Gate().calc_params(UnitaryMatrix(U))
            V = U3Gate().get_unitary(prm).numpy
        else:
            circ = Circuit(1)
            circ.append_gate(ConstantUnitaryGate(U), 0)
            data = PassData(circ)
            if which == 'u3':
                ps = U3Decomposition()
            else:
                ps = ZXZXZDecomposition(always_use_rx=(which in ('zxzxz-rx', 'zxzxz-rx-u1')),
                                        always_use_u1=(which in ('zxzxz-u1', 'zxzxz-rx-u1')))
            _drive(ps.run(circ, data))
            V = circ.get_unitary().numpy
            if which == 'u3' and [type(op.gate).__name__ for op in circ] != ['U3Gate']:
                return 'not-a-single-u3', 0.0
            if which.startswith('zxzxz'):
                # only gates of the requested target set: Z = U1 iff always_use_u1 (else RZ), X = RX iff always_use_rx
                # (else SX) - with the default PassData gate set, which holds neither RX nor U1
                z = 'U1Gate' if which in ('zxzxz-u1', 'zxzxz-rx-u1') else 'RZGate'
                x = 'RXGate' if which in ('zxzxz-rx', 'zxzxz-rx-u1') else 'SqrtXGate'
                names = [type(op.gate).__name__ for op in circ]
                # (the number of gates is not part of the property: a shorter sequence of target gates is acceptable)
                if any(nm not in (z, x) for nm in names) or len(names) > 5:
                    return 'wrong-target-gates:%s' % '-'.join(names), 0.0
        k = np.unravel_index(np.argmax(np.abs(U)), U.shape)
        ph = V[k] / U[k]
        err = float(np.abs(V - ph * U).max())
        if abs(abs(ph) - 1) > 1e-7 or err > 1e-7:
            return 'differs', err
        return None, err
    try:
        why, err = rt.nt(run)
    except Exception as e:
        rt.reach()
        if rt.CONCRETE:
            rt.log('raised', repr(e))
        return rt.fail('analytic:%s:raised:%s' % (which, type(e).__name__))
    rt.reach()
    if rt.CONCRETE:
        rt.log(which, 'phase index', ai, 'angles (x pi/4)', (NEAR[ti] if near else ti, pi_, li), 'error', err)
    if why is not None:
        return rt.fail('analytic:%s:%s' % (which, why))
    return True


def analytic(a: int, t: int, p: int, l: int) -> bool:
    """
    post: _
    """
    return _analytic_body(a, t, p, l)


def obligations(tier: str) -> list[dict]:
    obs = []
    for name in RULES:
        obs.append({'name': 'R/%s' % name, 'func': 'check_rule', 'kind': 'direct', 'shard': {'rule': name},
                    'timeout': 120})
    for name in RULES:
        if tier == 'quick':
            obs.append({'name': 'S/%s/W3/pre2' % name, 'func': 'subst', 'timeout': 200,
                        'shard': {'rule': name, 'W': 3, 'npre': 2, 'codes': [1, 2], 'prepop': False}})
        else:
            obs.append({'name': 'S/%s/W3/pre3' % name, 'func': 'subst', 'timeout': 2400,
                        'shard': {'rule': name, 'W': 3, 'npre': 3, 'codes': [1, 2, 3]}})
            obs.append({'name': 'S/%s/W2/pre4' % name, 'func': 'subst', 'timeout': 2400,
                        'shard': {'rule': name, 'W': 2, 'npre': 4, 'codes': [1, 2], 'prepop': False}})
    if tier == 'quick':
        for lf in (0, 1):
            obs.append({'name': 'N/scan/W3/pre2/left%d' % lf, 'func': 'scan', 'timeout': 200,
                        'shard': {'W': 3, 'npre': 2, 'codes': [1, 2], 'prepop': False, 'left': lf}})
        # three gates, every accept pattern, both directions; the collection filter takes everything here
        # (its patterns on three gates are in the thorough tier)
        for lf in (0, 1):
            obs.append({'name': 'N/scan/W2/pre3/collect-all/left%d' % lf, 'func': 'scan', 'timeout': 200,
                        'shard': {'W': 2, 'npre': 3, 'codes': [1, 2], 'prepop': False, 'left': lf, 'collect_all': True}})
    else:
        obs.append({'name': 'N/scan/W3/pre3', 'func': 'scan', 'timeout': 3000,
                    'shard': {'W': 3, 'npre': 3, 'codes': [1, 2, 4]}})
        for c0 in (0, 1):
            for c1 in (0, 1):
                for lf in (0, 1):
                    obs.append({'name': 'N/scan/W2/pre3/pin%d%d/left%d' % (c0, c1, lf), 'func': 'scan', 'timeout': 600,
                                'shard': {'W': 2, 'npre': 3, 'codes': [1, 2], 'prepop': False, 'left': lf,
                                          'pin': {'0': c0, '5': c1}}})
        obs.append({'name': 'N/scan/W2/pre4', 'func': 'scan', 'timeout': 3000,
                    'shard': {'W': 2, 'npre': 4, 'codes': [1, 2], 'prepop': False}})
    for which in ('u3', 'zxzxz', 'zxzxz-rx', 'zxzxz-u1', 'zxzxz-rx-u1', 'calc_params'):
        obs.append({'name': 'A/%s' % which, 'func': 'analytic', 'timeout': 250 if tier == 'quick' else 2400,
                    'shard': {'which': which, 'na': 1 if tier == 'quick' else 7}})
        obs.append({'name': 'A/%s/near-degenerate' % which, 'func': 'analytic', 'timeout': 250 if tier == 'quick' else 1200,
                    'shard': {'which': which, 'na': 1 if tier == 'quick' else 7, 'near': True}})
    return obs


# ---- (M) multiplexed-gate decomposition, all real angles (E2) -------------------------------

def check_mgd(shard: dict, timeout: float) -> dict:
    """MGDPass on one MPRY/MPRZ gate (width n, target t, location loc) with SYMBOLIC angles: the unitary of
    the decomposed circuit equals the gate's own unitary for all real parameter vectors (z3, QF_NRA)."""
    import harness.C18 as c18
    c18._setup()
    import numpy as np
    import sympy as sp
    from bqskit.compiler.passdata import PassData
    from bqskit.ir.circuit import Circuit
    from bqskit.ir.gates import MPRYGate, MPRZGate
    from bqskit.passes.synthesis.qsd import MGDPass
    import bqskit.passes.synthesis.qsd as qsdmod
    import harness.C06 as c06
    from vf import nra, sym
    n, t, loc, W, twice, ry = shard['n'], shard['t'], shard['loc'], shard['W'], shard['twice'], shard['ry']
    G = (MPRYGate if ry else MPRZGate)(n, t)
    ts = sym.symbols(G.num_params)
    syms = [x.e for x in ts]
    res: dict = {'status': 'discharged', 'queries': 0, 'solver_s': 0.0, 'detail': ''}
    circ = Circuit(W)
    circ.append_gate(G, loc, ts)
    mods = c06._circuit_modules() + c18._gate_modules(G) + [qsdmod]
    import bqskit.ir.gates.parameterized.mpry as m1
    import bqskit.ir.gates.parameterized.mprz as m2
    mods += [m1, m2]
    mods = sym.patch_np(*mods)
    try:
        with sym.sym_mode(), c18.native_model():
            before = sym.to_matrix(circ.get_unitary())
            data = PassData(Circuit(W))
            _drive(MGDPass(decompose_twice=bool(twice)).run(circ, data))
            left = [op for op in circ if isinstance(op.gate, (MPRYGate, MPRZGate)) and op.num_qudits == n]
            if left:
                res['status'] = 'refuted'
                res['cex'] = {'mgd': shard, 'why': 'gate not decomposed'}
                return res
            after = sym.to_matrix(circ.get_unitary())
    finally:
        sym.unpatch_np(*mods)
    r = nra.decide_zero(nra.matrix_entries(after - before), syms, timeout * 0.8)
    res['queries'] += r.get('queries', 0)
    res['solver_s'] = r.get('solver_s', 0.0)
    res['status'] = r['status']
    res['detail'] = r.get('detail', '')
    if r['status'] == 'refuted':
        res['cex'] = {'mgd': shard, 'params': r['cex']['params']}
    return res


_old_replay = replay


def replay(shard: dict, cex: dict) -> tuple[bool, str]:     # noqa: F811
    if 'mgd' in cex:
        import numpy as np
        from bqskit.compiler.passdata import PassData
        from bqskit.ir.circuit import Circuit
        from bqskit.ir.gates import MPRYGate, MPRZGate
        from bqskit.passes.synthesis.qsd import MGDPass
        sh = cex['mgd']
        G = (MPRYGate if sh['ry'] else MPRZGate)(sh['n'], sh['t'])
        p = [float(cex.get('params', {}).get('t%d' % i, 0.3 + 0.37 * i)) for i in range(G.num_params)]
        circ = Circuit(sh['W'])
        circ.append_gate(G, sh['loc'], p)
        U = circ.get_unitary().numpy
        _drive(MGDPass(decompose_twice=bool(sh['twice'])).run(circ, PassData(circ)))
        V = circ.get_unitary().numpy
        d = float(np.abs(U - V).max())
        return d > 1e-7, 'MGDPass on %r params %r: |before - after| = %g' % (sh, p, d)
    return _old_replay(shard, cex)


_old_obligations = obligations


def obligations(tier: str) -> list[dict]:     # noqa: F811
    obs = _old_obligations(tier)
    import itertools
    for ry in (1, 0):
        for n in ((2, 3) if tier == 'quick' else (2, 3, 4)):
            for t in range(n):
                locs = [list(range(n))]
                if n >= 2:
                    locs.append(list(reversed(range(1, n + 1))))      # scrambled, shifted location on a wider circuit
                if tier != 'quick' and n == 3:
                    locs += [list(p) for p in itertools.permutations(range(3))][1:4]
                for loc in locs:
                    for twice in ((0, 1) if (n >= 3) else (0,)):
                        W = max(loc) + 1
                        obs.append({'name': 'M/%s%d/t%d/loc%s/twice%d' % ('mpry' if ry else 'mprz', n, t,
                                                                           ''.join(map(str, loc)), twice),
                                    'func': 'check_mgd', 'kind': 'direct', 'timeout': 300 if tier == 'quick' else 1200,
                                    'shard': {'n': n, 't': t, 'loc': loc, 'W': W, 'twice': twice, 'ry': ry}})
    return obs
