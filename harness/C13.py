"""C13 - task failures reach their client; no client request takes the server down.

Part A (this file, function hist): symbolic request histories dispatched through the REAL
DetachedServer.handle_message (client SUBMIT / REQUEST / STATUS / CANCEL / DISCONNECT, RESULT / ERROR for a
root task from below), judged against a per-task state machine written here
(UNKNOWN -> RUNNING -> DONE -> COLLECTED | CANCELLED | GONE).

Part B (task-failure propagation through the simulated runtime) is appended by `part_b(tier)`.
"""
from __future__ import annotations

import uuid
from typing import Any

from vf import rt

from harness.c15_fakes import STUB, FakeConn, init_node, make_employee, reset_globals

from bqskit.compiler.status import CompilationStatus
from bqskit.compiler.task import CompilationTask
from bqskit.runtime.address import RuntimeAddress
from bqskit.runtime.detached import DetachedServer
from bqskit.runtime.direction import MessageDirection
from bqskit.runtime.message import RuntimeMessage
from bqskit.runtime.result import RuntimeResult
from bqskit.runtime.task import RuntimeTask

PROPERTY = 'C13'
LEVEL = 'model_checking'
ENCODED = [
    'bqskit.runtime.detached:DetachedServer.handle_message', 'bqskit.runtime.detached:DetachedServer.handle_new_comp_task',
    'bqskit.runtime.detached:DetachedServer.handle_request', 'bqskit.runtime.detached:DetachedServer.handle_status',
    'bqskit.runtime.detached:DetachedServer.handle_cancel_comp_task', 'bqskit.runtime.detached:DetachedServer.handle_disconnect',
    'bqskit.runtime.detached:DetachedServer.handle_result', 'bqskit.runtime.detached:DetachedServer.handle_error',
    'bqskit.runtime.detached:DetachedServer._get_new_mailbox_id', 'bqskit.runtime.detached:ServerMailbox',
    'bqskit.runtime.base:ServerBase.{handle_disconnect,schedule_tasks,assign_tasks,broadcast,get_employee_responsible_for}',
    'bqskit.runtime.task:RuntimeTask.__init__',
]
ASSUMPTIONS = [
    'the server is built with DetachedServer.__new__ and its fields set as __init__/listen would (no sockets, no '
    'threads); connections are fake objects; ServerBase.outgoing is a FIFO stand-in that appends to the fake connection '
    'unless it is closed (what send_outgoing does); the selector is a stub with register/unregister',
    'histories are well-formed for the synchronous client in bqskit/compiler/compiler.py: a client blocked in result() '
    'sends nothing until a message reaches it (it may disconnect); a disconnected client sends nothing; from below, a '
    'root task produces at most one RESULT or ERROR, and only while the server has not seen it finish (it may cross a '
    'CANCEL / a disconnect in flight)',
    'task ids are uuid.UUID(int=k) (CompilationTask built with __new__; bqskit.compiler.task calls uuid.uuid4 only in '
    'its constructor); worker choice in assign_tasks is pinned (shuffle = identity, tie-break 0) - it does not '
    'influence client-visible behaviour (C15 covers it)',
    'state machine: STATUS -> RUNNING | DONE for the requester\'s own open task, UNKNOWN for anything else (collected, '
    'cancelled, another client\'s, never issued); REQUEST -> RESULT now (DONE) or on arrival (RUNNING), and for anything '
    'else ERROR "Unknown task." followed by the disconnect of the requester (handle_request\'s documented "bad client" '
    'policy); CANCEL -> one CANCEL acknowledgement to the requester always (Compiler.cancel blocks on it), the task is '
    'cancelled (CANCEL broadcast below) only if it is the requester\'s own open task; RESULT/ERROR from below go to the '
    'owner only; an ERROR for a task the owner already cancelled may be forwarded or dropped (both accepted); after a '
    'forwarded ERROR the task still counts as RUNNING (the server has no failed state)',
]
BOUNDS = {
    'quick': 'every well-formed history of 1..5 events with 1 client (1 employee) and of 1..4 events with 2 clients '
             '(2 employees), followed by a fixed probe (submit / status / result / status / request) per connected client',
    'thorough': 'every well-formed history of 1..6 events with 1 client and of 1..5 events with 2 clients (2 employees), '
                '1..4 events with 2 clients and 1 employee; same probe',
}
OUTSIDE = 'longer histories; 3 clients; CONNECT / LOG / WAITING / UPDATE interleaved with requests; how the client library ' \
          'pairs replies after it survived a forwarded ERROR (Part B); propagation of failures inside the runtime (Part B)'

# handle_error's comment says errors of cancelled tasks are silently discarded, but a cancelled task stays in
# mailbox_to_task_dict until its client disconnects, so the ERROR is forwarded to the (connected) owner. The
# property statement does not decide this; both behaviours are accepted unless this flag is set.
STRICT_ERROR_AFTER_CANCEL = False

RUNNING, DONE, COLLECTED, CANCELLED, GONE = 'RUNNING', 'DONE', 'COLLECTED', 'CANCELLED', 'GONE'
NEVER = uuid.UUID(int=0xDEAD)
CLIENT_KINDS = ('REQUEST', 'STATUS', 'CANCEL')
CLASSES = ('own-live', 'own-finished', 'own-collected', 'own-cancelled', 'other-client', 'never-issued')


class MTask:
    def __init__(self, idx: int, owner: int, mailbox: int) -> None:
        self.idx, self.owner, self.mailbox = idx, owner, mailbox
        self.tid = uuid.UUID(int=idx + 1)
        self.state = RUNNING
        self.waiting = False       # the owner asked for the result while it was running
        self.errored = False       # an ERROR from below was seen
        self.reported = False      # a RESULT from below was seen
        self.emp = -1
        self.value = 'value-%d' % idx


class World:
    """The real server + the reference model, advanced in lock step."""

    def __init__(self, NC: int, E: int) -> None:
        reset_globals()
        STUB.reset(1, [0], [0, 0, 0])
        self.NC, self.E = NC, E
        emps = [make_employee(k, 1, 1, 0) for k in range(E)]
        s = init_node(DetachedServer.__new__(DetachedServer), emps, 0, 1)
        s.clients = {}
        s.tasks = {}
        s.mailbox_to_task_dict = {}
        s.mailboxes = {}
        s.mailbox_counter = 0
        self.cconn = [FakeConn('client%d' % c, 10 + c) for c in range(NC)]
        for conn in self.cconn:
            s.clients[conn] = set()          # what the listen thread does on accept
            s.sel.register(conn)
        self.s = s
        self.tasks: list[MTask] = []
        self.connected = [True] * NC
        self.blocked = [False] * NC
        self.emp_load = [0] * E

    # ---- enumeration of the enabled, well-formed next events -------------------------------------
    def cls_of(self, c: int, t: 'MTask | None') -> str:
        if t is None:
            return 'never-issued'
        if t.owner != c:
            return 'other-client'
        return {RUNNING: 'own-live', DONE: 'own-finished', COLLECTED: 'own-collected', CANCELLED: 'own-cancelled'}[t.state]

    def actions(self) -> list[tuple]:
        acts: list[tuple] = []
        for c in range(self.NC):
            if not self.connected[c]:
                continue
            if not self.blocked[c]:
                acts.append(('SUBMIT', c, None))
                for kind in CLIENT_KINDS:
                    for t in self.tasks + [None]:      # type: ignore
                        acts.append((kind, c, t))
            acts.append(('DISCONNECT', c, None))
        for t in self.tasks:
            if t.state in (RUNNING, CANCELLED, GONE) and not t.errored and not t.reported:
                acts.append(('RESULT', -1, t))
                acts.append(('ERROR', -1, t))
        return acts

    def label(self, a: tuple) -> str:
        kind, c, t = a
        if kind in CLIENT_KINDS:
            return '%s:%s' % (kind.lower(), self.cls_of(c, t))
        if kind in ('RESULT', 'ERROR'):
            return '%s:%s%s' % (kind.lower(), t.state.lower(), '-waiting' if t.waiting else '')
        return kind.lower()

    def describe(self, a: tuple) -> str:
        kind, c, t = a
        who = 'client%d' % c if c >= 0 else 'below'
        what = '' if kind in ('SUBMIT', 'DISCONNECT') else (' task#%d(owner client%d, %s)' % (t.idx, t.owner, t.state)
                                                            if t is not None else ' never-issued id')
        return '%s %s%s' % (who, kind, what)

    # ---- one event through the real server and through the model -----------------------------------
    def snapshot(self) -> list[int]:
        return [len(x.sent) for x in self.cconn] + [len(e.conn.sent) for e in self.s.employees]

    def step(self, a: tuple) -> 'str | None':
        """Returns None if the server did what the state machine prescribes, else a short reason."""
        kind, c, t = a
        s = self.s
        before = self.snapshot()
        conn = self.cconn[c] if c >= 0 else None
        tid = t.tid if t is not None else NEVER
        exp_client: list[list] = [[] for _ in range(self.NC)]      # exact new messages per client connection
        alt_client: 'list[list] | None' = None                      # an accepted alternative
        exp_cancel: list[Any] = []       # CANCEL addresses every employee must receive
        opt_cancel: list[Any] = []       # CANCEL addresses employees may additionally receive
        exp_submit = None
        disconnect = -1
        try:
            if kind == 'SUBMIT':
                ct = CompilationTask.__new__(CompilationTask)
                mt = MTask(len(self.tasks), c, len(self.tasks))
                ct.task_id, ct.logging_level, ct.max_logging_depth = mt.tid, None, -1
                ct.circuit = ct.workflow = ct.data = None
                ct.done = ct.request_data = False
                self.tasks.append(mt)
                exp_submit = mt
                s.handle_message(RuntimeMessage.SUBMIT, MessageDirection.CLIENT, conn, ct)
            elif kind == 'STATUS':
                own_open = t is not None and t.owner == c and t.state in (RUNNING, DONE)
                st = (CompilationStatus.DONE if t.state == DONE else CompilationStatus.RUNNING) if own_open \
                    else CompilationStatus.UNKNOWN
                exp_client[c] = [(RuntimeMessage.STATUS, st)]
                s.handle_message(RuntimeMessage.STATUS, MessageDirection.CLIENT, conn, tid)
            elif kind == 'REQUEST':
                if t is not None and t.owner == c and t.state == DONE:
                    exp_client[c] = [(RuntimeMessage.RESULT, t.value)]
                    t.state = COLLECTED
                elif t is not None and t.owner == c and t.state == RUNNING:
                    t.waiting = True
                    self.blocked[c] = True
                else:
                    exp_client[c] = [(RuntimeMessage.ERROR, str)]
                    disconnect = c
                s.handle_message(RuntimeMessage.REQUEST, MessageDirection.CLIENT, conn, tid)
            elif kind == 'CANCEL':
                exp_client[c] = [(RuntimeMessage.CANCEL, None)]
                if t is not None and t.owner == c and t.state in (RUNNING, DONE):
                    exp_cancel = [RuntimeAddress(-1, t.mailbox, 0)]
                    t.state, t.waiting = CANCELLED, False
                else:
                    opt_cancel = [RuntimeAddress(-1, x.mailbox, 0) for x in self.tasks if x.owner == c]
                s.handle_message(RuntimeMessage.CANCEL, MessageDirection.CLIENT, conn, tid)
            elif kind == 'DISCONNECT':
                disconnect = c
                s.handle_message(RuntimeMessage.DISCONNECT, MessageDirection.CLIENT, conn, None)
            elif kind == 'RESULT':
                t.reported = True
                self.emp_load[t.emp] -= 1
                if t.state == RUNNING:
                    if t.waiting:
                        exp_client[t.owner] = [(RuntimeMessage.RESULT, t.value)]
                        t.state, t.waiting = COLLECTED, False
                        self.blocked[t.owner] = False
                    else:
                        t.state = DONE
                res = RuntimeResult(RuntimeAddress(-1, t.mailbox, 0), t.value, s.employees[t.emp].id)
                s.handle_message(RuntimeMessage.RESULT, MessageDirection.BELOW, s.employees[t.emp].conn, res)
            elif kind == 'ERROR':
                t.errored = True
                text = 'boom-%d' % t.idx
                if t.state == RUNNING:
                    exp_client[t.owner] = [(RuntimeMessage.ERROR, text)]
                elif t.state == CANCELLED and self.connected[t.owner] and not STRICT_ERROR_AFTER_CANCEL:
                    alt_client = [list(x) for x in exp_client]
                    alt_client[t.owner] = [(RuntimeMessage.ERROR, text)]
                s.handle_message(RuntimeMessage.ERROR, MessageDirection.BELOW, s.employees[t.emp].conn, (t.mailbox, text))
        except Exception as ex:
            if rt.CONCRETE:
                import traceback
                tb = traceback.extract_tb(ex.__traceback__)
                rt.log('      !! %r escaped handle_message at %s' % (ex, ', '.join('%s:%d' % (f.name, f.lineno) for f in tb[-2:])))
                rt.log('      (in ServerBase.run this is handle_system_error + shutdown: every client loses its work)')
            return 'exception:' + type(ex).__name__
        if disconnect >= 0:
            # every open task of the leaving client is cancelled below; nothing of it stays known
            for x in self.tasks:
                if x.owner == disconnect:
                    if x.state in (RUNNING, DONE):
                        exp_cancel.append(RuntimeAddress(-1, x.mailbox, 0))
                    x.state, x.waiting = GONE, False
            self.connected[disconnect] = False
            self.blocked[disconnect] = False

        # ---- compare channels ----
        after = self.snapshot()
        new_c = [self.cconn[i].sent[before[i]:] for i in range(self.NC)]
        new_e = [e.conn.sent[before[self.NC + k]:] for k, e in enumerate(s.employees)]
        if rt.CONCRETE:
            for i in range(self.NC):
                if new_c[i] or exp_client[i]:
                    rt.log('      client%d got %s ; prescribed %s' % (i, _fmt(new_c[i]), _fmt(exp_client[i])))
        if not _same(new_c, exp_client):
            if alt_client is None or not _same(new_c, alt_client):
                bad = [i for i in range(self.NC) if not _same([new_c[i]], [exp_client[i]])]
                if c >= 0 and bad == [c]:
                    return 'wrong-reply'
                if c >= 0 and c in bad:
                    return 'wrong-reply-and-message-to-another-client'
                return 'message-to-another-client' if c >= 0 else 'wrong-delivery'
            exp_client = alt_client
        for i in range(self.NC):
            if new_c[i] and kind in ('RESULT', 'ERROR'):
                self.blocked[i] = False      # a message reached the client: its blocking recv returns / raises
        if disconnect >= 0 and not self.cconn[disconnect].closed:
            return 'bad-client-not-disconnected'
        for i in range(self.NC):
            if self.connected[i] and self.cconn[i].closed:
                return 'connection-of-a-live-client-closed'
        # employees
        subs = [(k, m) for k in range(self.E) for m in new_e[k] if m[0] != RuntimeMessage.CANCEL]
        if exp_submit is not None:
            if len(subs) != 1 or subs[0][1][0] != RuntimeMessage.SUBMIT_BATCH or len(subs[0][1][1]) != 1:
                return 'submit-not-forwarded-once'
            rtask = subs[0][1][1][0]
            if not isinstance(rtask, RuntimeTask) or rtask.return_address != RuntimeAddress(-1, exp_submit.mailbox, 0) \
                    or rtask.comp_task_id != exp_submit.mailbox:
                return 'submit-wrong-runtime-task'
            exp_submit.emp = subs[0][0]
            self.emp_load[exp_submit.emp] += 1
        elif subs:
            return 'unexpected-message-below'
        for k in range(self.E):
            got = [m[1] for m in new_e[k] if m[0] == RuntimeMessage.CANCEL]
            for addr in exp_cancel:
                if got.count(addr) != 1:
                    return 'cancel-not-broadcast-below'
            for addr in got:
                if addr not in exp_cancel and addr not in opt_cancel:
                    return 'foreign-task-cancelled-below'
        return self.tables()

    def tables(self) -> 'str | None':
        """Server tables mention exactly what the model says each connected client owns."""
        s = self.s
        live = [self.cconn[i] for i in range(self.NC) if self.connected[i]]
        if list(s.clients.keys()) != live:
            return 'tables:clients'
        for i in range(self.NC):
            if self.connected[i]:
                want = {t.tid for t in self.tasks if t.owner == i and t.state in (RUNNING, DONE)}
                if s.clients[self.cconn[i]] != want:
                    return 'tables:open-tasks-of-client'
        by_tid = {t.tid: t for t in self.tasks}
        for tid, (mb, conn) in s.tasks.items():
            t = by_tid.get(tid)
            if t is None or t.state == GONE or conn is not self.cconn[t.owner] or mb != t.mailbox:
                return 'tables:tasks'
            if s.mailbox_to_task_dict.get(mb) != tid:
                return 'tables:mailbox_to_task_dict'
        for mb, tid in s.mailbox_to_task_dict.items():
            if tid not in s.tasks:
                return 'tables:mailbox_to_task_dict'
        for t in self.tasks:
            if t.state in (RUNNING, DONE):
                if t.tid not in s.tasks:
                    return 'tables:tasks'
                box = s.mailboxes.get(t.mailbox)
                if box is None or box.ready != (t.state == DONE) or bool(box.client_waiting) != t.waiting:
                    return 'tables:mailbox'
            elif t.mailbox in s.mailboxes:
                return 'tables:mailbox-left-behind'
        if len(s.mailboxes) != sum(1 for t in self.tasks if t.state in (RUNNING, DONE)):
            return 'tables:mailbox-left-behind'
        for k, e in enumerate(s.employees):
            if e.num_tasks != self.emp_load[k]:
                return 'tables:employee-num_tasks'
        if s.running is not True or s.sel.closed:
            return 'server-shut-down'
        return None

    def probe(self) -> 'str | None':
        """A later well-formed request is still served: every connected client that can speak submits a new task,
        sees it RUNNING, then DONE, and collects the value."""
        for c in range(self.NC):
            if not self.connected[c] or self.blocked[c]:
                continue
            for mk in ('SUBMIT', 'STATUS', 'RESULT', 'STATUS', 'REQUEST'):
                t = self.tasks[-1] if mk != 'SUBMIT' else None
                a = (mk, -1 if mk == 'RESULT' else c, t)
                if rt.CONCRETE:
                    rt.log('   probe:', self.describe(a))
                r = self.step(a)
                if r:
                    return 'later-request-not-served:' + mk.lower() + ':' + r
        return None


def _same(got: list, exp: list) -> bool:
    if len(got) != len(exp):
        return False
    for g, e in zip(got, exp):
        if len(g) != len(e):
            return False
        for (gm, gp), (em, ep) in zip(g, e):
            if gm != em:
                return False
            if ep is str:
                if not isinstance(gp, str):
                    return False
            elif gp != ep or type(gp) is not type(ep):
                return False
    return True


def _fmt(ms: list) -> str:
    return '[' + ', '.join('%s(%s)' % (m.name, 'text' if p is str else getattr(p, 'name', p)) for m, p in ms) + ']'


@rt.natively
def run_history(N: int, NC: int, E: int, last: 'list | None', first: 'list | None', n: int, xs: list) -> bool:
    """History of L = 1..N events; events 0..L-2 are free (all enabled events), the last one is restricted to the
    obligation's class `last` (the classes partition the events, so the obligations of one (N, NC, E) together cover
    every history of every length <= N exactly once, judged at its last event)."""
    w = rt.nt(World, NC, E)
    L = rt.P(n, 1, N)
    for i in range(L):
        acts = rt.nt(_enabled, w, i, L, last, first)
        if not acts:
            return True
        a = acts[rt.P(xs[i], 0, len(acts) - 1)]
        lab = rt.nt(w.label, a)
        if rt.CONCRETE:
            rt.log('event %d: %s   [%s]' % (i, w.describe(a), lab))
        r = rt.nt(w.step, a)
        if r:
            if i < L - 1:
                return True      # judged by the obligation in which this event is the last one
            rt.reach()
            return rt.fail('C13:' + lab + ':' + r)
    rt.reach()
    r = rt.nt(w.probe)
    if r:
        return rt.fail('C13:' + r)
    return True


def _enabled(w: World, i: int, L: int, last: 'list | None', first: 'list | None') -> list:
    acts = w.actions()
    if i == L - 1 and last is not None:
        acts = [a for a in acts if w.label(a).startswith(last[0]) and (len(last) < 2 or w.label(a) == last[0] + ':' + last[1])]
    elif first is not None and i < len(first):
        acts = [a for a in acts if a[0] == first[i]]
    return acts


def hist(n: int, x0: int, x1: int, x2: int, x3: int, x4: int, x5: int) -> bool:
    """
    post: _
    """
    rt.begin()
    sh = rt.SHARD
    return run_history(sh['N'], sh['NC'], sh['E'], sh.get('last'), sh.get('first'), n, [x0, x1, x2, x3, x4, x5])


LASTS = [[k.lower(), c] for k in CLIENT_KINDS for c in CLASSES] + [['submit'], ['disconnect'], ['result'], ['error']]


def part_a(tier: str) -> list[dict]:
    obs: list[dict] = []

    def fam(N: int, NC: int, E: int, timeout: int, first: 'list | None' = None) -> None:
        for last in LASTS:
            if NC == 1 and len(last) > 1 and last[1] == 'other-client':
                continue
            if N < 4 and len(last) > 1 and last[1] == 'own-collected':
                continue        # needs SUBMIT, RESULT, REQUEST before it
            sh: dict = {'N': N, 'NC': NC, 'E': E, 'last': last}
            name = 'A/N%d/C%d/E%d/last=%s' % (N, NC, E, ':'.join(last))
            if first:
                sh['first'] = first
                name += '/first=' + '+'.join(first)
            obs.append({'name': name, 'func': 'hist', 'shard': sh, 'timeout': timeout})

    if tier == 'quick':
        fam(5, 1, 1, 300)
        fam(4, 2, 2, 300)
    else:
        fam(6, 1, 2, 2400)
        fam(5, 2, 2, 2400)
        fam(4, 2, 1, 2400)
    return obs


def part_b(tier: str) -> list[dict]:
    """Task-failure propagation through the simulated runtime (E3, vf/rtsim.py): a task at some position of a
    task tree raises; the ERROR message races with RESULTs under every schedule within K delays; the real
    Compiler.result() must raise carrying the original message, never return a value, never block."""
    from harness.rt_entry import ob
    obs = []
    if tier == 'quick':
        for topo in ('flat1', 'flat2'):
            for sh in ('raise_leaf', 'raise_nested', 'raise_late', 'raise_deep'):
                obs.append(ob('B/msg/%s/%s/K1' % (topo, sh), topo, [sh], 'tables', 1, 200))
    else:
        for topo in ('flat1', 'flat2', 'flat3', 'mgr2x1', 'mgr1x2'):
            for sh in ('raise_leaf', 'raise_nested', 'raise_late', 'raise_deep'):
                obs.append(ob('B/msg/%s/%s/K2' % (topo, sh), topo, [sh], 'tables', 2, 600, maxrank=3))
        obs.append(ob('B/msg/flat2/raise+other-client/K2', 'flat2', ['raise_leaf', 'map2'], 'tables', 2, 600))
        obs.append(ob('B/line/flat2/raise_leaf/K1', 'flat2', ['raise_leaf'], 'tables', 1, 600, line=True, maxrank=1))
    return obs


from harness.rt_entry import sim  # noqa: E402,F401  (entry function of the part B obligations)


def obligations(tier: str) -> list[dict]:
    return part_a(tier) + part_b(tier)
