"""C16 - objects shipped between processes arrive equal to what was sent (copy / become / pickle).

Families (the structures are chosen by solver-decided splits of symbolic integers; the byte layer -
pickle / dill - is a C boundary and runs natively on the concrete structure of each path):

  circ/...   circuits reached by symbolic editing histories (harness/circ_common.py: build_pre + do_call,
             i.e. grids with gaps and CircuitGate blocks), then pickle, dill, copy.copy, copy.deepcopy,
             Circuit.copy, Circuit.become (deep and shallow), RuntimeTask.fnargs; "copy shares no mutable
             state" is checked by mutating the copy (fixed battery + one symbolic editing call).
  radix/...  mixed-radix circuits with parametrised tagged gates and parametrised blocks.
  pd/...     PassData with symbolic field values: copy / become(deepcopy False, True) / update / pickle /
             dill / RuntimeTask; the compared attribute list is the instance __dict__ at check time.
  wf/...     Workflows nesting every control pass (module-level callables): pickle, dill, deepcopy, copy ctor.
  graph/...  CouplingGraph / MachineModel / GateSet after pickle: ==, hash, public API.
  gate/...   library gates incl. CachedClass singletons: pickle, copy, deepcopy, inside a circuit.
"""
from __future__ import annotations

import copy
import pickle
from typing import Any

import dill
import numpy as np

from bqskit.compiler.basepass import _sub_do_work
from bqskit.compiler.gateset import GateSet
from bqskit.compiler.machine import MachineModel
from bqskit.compiler.passdata import PassData
from bqskit.compiler.workflow import Workflow
from bqskit.ir.circuit import Circuit
from bqskit.ir.gate import Gate
from bqskit.ir.gates.circuitgate import CircuitGate
from bqskit.ir.location import CircuitLocation
from bqskit.ir.operation import Operation
from bqskit.passes.control.predicate import PassPredicate
from bqskit.compiler.basepass import BasePass
from bqskit.qis.graph import CouplingGraph
from bqskit.qis.unitary.unitarymatrix import UnitaryMatrix
from bqskit.runtime.address import RuntimeAddress
from bqskit.runtime.task import RuntimeTask
from bqskit.utils.cachedclass import CachedClass
from harness import c11_common as K
from harness.C11 import gen_tree
from harness.c11_common import H, Src
from harness.circ_common import NA, Tags, build_pre, do_call
from vf import rt
from vf.circ_oracle import TG, Viol, check_invariant, flat_of, grid, op_key

PROPERTY = 'C16'
LEVEL = 'model_checking'
ENCODED = [
    'bqskit.ir.circuit:Circuit.{copy,become,__reduce__,__eq__,__ne__}', 'bqskit.ir.circuit:rebuild_circuit',
    'bqskit.ir.gates.circuitgate:CircuitGate.{__init__,__eq__,__hash__}', 'bqskit.ir.operation:Operation.{__eq__,__hash__}',
    'bqskit.utils.cachedclass:CachedClass.{__new__,__copy__,__deepcopy__,__getnewargs_ex__}',
    'bqskit.compiler.passdata:PassData.{__init__,copy,become,update,__getitem__,__setitem__,__iter__}',
    'bqskit.compiler.workflow:Workflow.{__init__,__getstate__,__setstate__}',
    'bqskit.compiler.machine:MachineModel.__init__', 'bqskit.compiler.gateset:GateSet.{__init__,__hash__,__iter__}',
    'bqskit.qis.graph:CouplingGraph.{__init__,__eq__,__hash__}', 'bqskit.runtime.task:RuntimeTask.{__init__,fnargs}',
    'bqskit.passes.control:{IfThenElsePass,WhileLoopPass,DoWhileLoopPass,DoThenDecide,ParallelDo,ForEachBlockPass}.__init__',
]
ASSUMPTIONS = [
    'pickle/dill byte layer executed natively per path (C boundary); decided is: for every structure within the bound '
    'the round trip compares equal through the public API, cell by cell',
    'gates in the circ/radix families are harness-tagged gates (module-level picklable class vf.circ_oracle.TG), so '
    'Circuit.__reduce__ takes its dill branch for them and its pickle branch for CircuitGate',
    'circuits come from harness/circ_common.py histories (public API calls with symbolic integer arguments)',
    'equality of classes that define no __eq__ (MachineModel, GateSet, PassData, Workflow) is equality of every '
    'attribute / public observation; == and hash are asserted where the class defines them',
    'CircuitGate is documented immutable: its inner circuit is not mutated by the aliasing battery',
]
BOUNDS = {
    'quick': 'circ: pre-states W=3/2 inserts, W=2/2 inserts+pop, W=2/3 inserts (true gaps), incl. CircuitGate blocks; '
             'W=2/1 insert + 1 editing call of each of 20 kinds (all symbolic arguments); W=3/1 insert + 6 kinds; '
             'copy -> 1 symbolic mutating call of 8 kinds (W=2); radix: all radix vectors in {2,3}^3 x 1 item, radixes '
             '(2,3,2) x 2 items, gates with 0-2 params and parametrised blocks; pd: W=3 every placement x initial x final '
             'mapping x every 3-qudit machine graph; error/seed/user-key/target kinds; wf: depth-2 trees of the 6 control '
             'passes + ForEach with 6 predicate kinds; graph: every graph on 4 and 5 qudits in 2 insertion orders; '
             '14 sample library gates',
    'thorough': 'circ: all kinds on W=3, 2-insert pre-states on W=2 incl. blocks, 24 two-call histories, copy -> 21 '
                'mutating kinds; radix: all radix vectors x 2 items, 3 items on (2,3,2); pd: 4-qudit machine graphs, '
                'scalars x graphs; wf: every slot nested; graph: 5 qudits with remote edge/weights, 6 qudits',
}
OUTSIDE = ('every library gate constructor space (C18); unitary equality after round trip beyond the 14 sample gates '
           '(follows from structural equality); circuits wider than 3 / histories longer than pre-state + 2 calls; '
           'pickles crossing Python versions; Compiler/CompilationTask objects; the weakness of CircuitGate.__eq__ '
           '(compares only the common prefix of two blocks, ignores parameters) is an equality-precision issue, not a '
           'shipping one, and is not asserted here')


# --------------------------------------------------------------------------- generic normal form of internals
def nfv(v: Any) -> Any:
    if isinstance(v, Operation):
        return ('op', op_key(v), tuple(v.location), tuple(v.params))
    if isinstance(v, TG):
        return ('T', v.tag, v._num_qudits, tuple(v._radixes), v._num_params)
    if isinstance(v, CircuitGate):
        return ('B', flat_of(v._circuit), tuple(v.radixes))
    if isinstance(v, Gate):
        return ('G', repr(v), tuple(v.radixes), v.num_params)
    if isinstance(v, Circuit):
        return ('circ', snapshot(v))
    if isinstance(v, CircuitLocation):
        return tuple(v)
    if isinstance(v, dict):
        return ('dict', tuple(sorted(((nfv(k), nfv(x)) for k, x in v.items()), key=repr)))
    if isinstance(v, (set, frozenset)):
        return ('set', tuple(sorted((nfv(x) for x in v), key=repr)))
    if isinstance(v, (list, tuple)):
        return tuple(nfv(x) for x in v)
    if isinstance(v, np.ndarray):
        return ('nd', tuple(np.asarray(v).ravel().tolist()))
    if isinstance(v, float):
        return round(v, 12)
    return v


def snapshot(c: Circuit) -> tuple:
    """Everything observable through the public read API, cell by cell."""
    cells = tuple(tuple(None if x is None else (op_key(x), tuple(x.location), tuple(x.params), x.gate.num_qudits,
                                                tuple(x.gate.radixes)) for x in row) for row in grid(c))
    counts = tuple(sorted(((nfv(g), n) for g, n in c.gate_counts.items()), key=repr))
    return (c.num_qudits, tuple(c.radixes), c.num_cycles, c.num_operations, c.num_params, c.depth, cells,
            tuple(round(float(p), 12) for p in c.params), counts,
            tuple(sorted(tuple(sorted(e)) for e in c.coupling_graph)), tuple(c.active_qudits), flat_of(c))


def vars_nf(o: Any) -> dict:
    return {k: nfv(v) for k, v in vars(o).items()}


# --------------------------------------------------------------------------- circuit oracles
def _mut_append(c: Circuit) -> None:
    for q in range(c.num_qudits):
        c.append_gate(TG(9000 + q, 1, (c.radixes[q],)), [q])


def _mut_pop_all(c: Circuit) -> None:
    while c.num_operations:
        c.pop()


def _mut_replace(c: Circuit) -> None:
    for cyc, op in list(c.operations_with_cycles()):
        c.replace_gate((cyc, op.location[0]), TG(9100, op.num_qudits, tuple(op.gate.radixes)), op.location)
        break


def _mut_renumber(c: Circuit) -> None:
    c.renumber_qudits(list(reversed(range(c.num_qudits))))


def _mut_insert_qudit(c: Circuit) -> None:
    c.insert_qudit(0)


def _mut_pop_qudit(c: Circuit) -> None:
    c.pop_qudit(c.num_qudits - 1)


def _mut_unfold(c: Circuit) -> None:
    c.unfold_all()


def _mut_params(c: Circuit) -> None:
    for op in c:
        for i in range(len(op.params)):
            op.params[i] = 77.0           # Operation.params is a public list
    if c.num_params:
        c.set_params([55.0] * c.num_params)


def _mut_clear(c: Circuit) -> None:
    c.clear()


def _mut_insert_front(c: Circuit) -> None:
    c.insert_gate(0, TG(9200, 1, (c.radixes[0],)), [0])


def _mut_pop_cycle(c: Circuit) -> None:
    c.pop_cycle(0)


MUTATORS = [_mut_append, _mut_pop_all, _mut_replace, _mut_renumber, _mut_insert_qudit, _mut_unfold, _mut_params,
            _mut_insert_front]


def _become_deep(c: Circuit) -> Circuit:
    t = Circuit(1)
    t.become(c)
    return t


def _become_shallow(c: Circuit) -> Circuit:
    t = Circuit(1)
    t.become(c, False)
    return t


def _via_task(c: Circuit) -> Circuit:
    t = RuntimeTask((_sub_do_work, (c,), {'k': c}), RuntimeAddress(0, 1, 2), 3, (RuntimeAddress(4, 5, 6),))
    f, a, k = t.fnargs
    assert f is _sub_do_work and k['k'] is a[0]
    return a[0]


def _via_pickled_task(c: Circuit) -> Circuit:
    t = RuntimeTask((_sub_do_work, (c,), {}), RuntimeAddress(0, 1, 2), 3, (RuntimeAddress(4, 5, 6),), 10, 2, 'nm', {'a': 'b'})
    t2 = pickle.loads(pickle.dumps(t))
    for name in ('task_id', 'return_address', 'comp_task_id', 'breadcrumbs', 'logging_level', 'max_logging_depth',
                 '_name', 'log_context', 'serialized_fnargs'):
        if getattr(t2, name) != getattr(t, name):
            raise Viol('task-field-lost', name)
    return t2.fnargs[1][0]


TRANSPORTS = [
    ('pickle', lambda c: pickle.loads(pickle.dumps(c)), True),
    ('dill', lambda c: dill.loads(dill.dumps(c)), False),
    ('copy.copy', lambda c: copy.copy(c), False),
    ('copy.deepcopy', lambda c: copy.deepcopy(c), False),
    ('Circuit.copy', lambda c: c.copy(), True),
    ('become', _become_deep, True),
    ('become-shallow', _become_shallow, False),
    ('RuntimeTask.fnargs', _via_task, False),
    ('pickled-RuntimeTask', _via_pickled_task, False),
]


def equal_checks(name: str, c: Circuit, c2: Circuit, snap: tuple) -> 'str | None':
    if c2 is c:
        return '%s:same-object' % name
    s2 = snapshot(c2)
    if s2 != snap:
        for i, (a, b) in enumerate(zip(snap, s2)):
            if a != b:
                rt.log(name, 'snapshot component', i, 'sent', a, 'arrived', b)
                break
        return '%s:layout-or-counters-differ' % name
    try:
        check_invariant(c2, name)
    except Viol as v:
        return '%s:arrived-inconsistent:%s' % (name, v.fp)
    if not (c2 == c) or not (c == c2) or (c2 != c):
        return '%s:not-equal' % name
    for r1, r2 in zip(grid(c), grid(c2)):
        for o1, o2 in zip(r1, r2):
            if o1 is None:
                continue
            if not (o1 == o2) or hash(o1) != hash(o2):
                return '%s:operation-eq-hash' % name
            if not (o1.gate == o2.gate) or hash(o1.gate) != hash(o2.gate):
                return '%s:gate-eq-hash' % name
    return None


def ship_oracle(c: Circuit, battery: bool) -> 'str | None':
    snap = snapshot(c)
    try:
        check_invariant(c, 'sent circuit')
    except Viol:
        return None          # the history already broke the circuit: that is C05's finding, not a shipping one
    for name, tr, independent in TRANSPORTS:
        try:
            c2 = tr(c)
        except Viol as v:
            return '%s:%s' % (name, v.fp)
        except Exception as e:  # noqa
            rt.log(name, 'raised', repr(e))
            return '%s:raised:%s' % (name, type(e).__name__)
        try:
            fp = equal_checks(name, c, c2, snap)
        except Exception as e:  # noqa
            rt.log(name, 'arrived object unreadable:', repr(e))
            fp = '%s:arrived-unreadable:%s' % (name, type(e).__name__)
        if fp is not None:
            return fp
        if name in ('become', 'become-shallow'):
            if vars(c2).keys() != vars(c).keys():
                return '%s:attribute-set-differs' % name
            d = K.first_diff(vars_nf(c), vars_nf(c2))
            if d is not None:
                rt.log(name, 'field', d, vars_nf(c)[d], vars_nf(c2).get(d))
                return '%s:field:%s' % (name, d)
        if independent and battery:
            for m in MUTATORS:
                cp = tr(c)
                try:
                    m(cp)
                except Exception:  # noqa   (a mutator refusing is not this property's business)
                    pass
                if c.num_operations != snap[3] or c.num_cycles != snap[2]:
                    return '%s:shares-state:%s' % (name, m.__name__)
            try:
                if snapshot(c) != snap:
                    return '%s:shares-state' % name
                check_invariant(c, 'original after mutating the copies')
            except Viol as v:
                return '%s:shares-state:%s' % (name, v.fp)
            except Exception as e:  # noqa
                rt.log('original unreadable after mutating copies:', repr(e))
                return '%s:shares-state:original-unreadable' % name
    # operations and gates on their own
    for row in grid(c):
        for op in row:
            if op is None:
                continue
            for nm, f in (('pickle', lambda x: pickle.loads(pickle.dumps(x))), ('deepcopy', copy.deepcopy)):
                o2 = f(op)
                if not (o2 == op) or hash(o2) != hash(op) or nfv(o2) != nfv(op):
                    return 'operation:%s' % nm
                g2 = f(op.gate)
                if not (g2 == op.gate) or hash(g2) != hash(op.gate) or nfv(g2) != nfv(op.gate):
                    return 'gate:%s' % nm
    # the reverse direction: edit the original, a copy taken before stays as it was
    if battery:
        keep = c.copy()
        for m in MUTATORS[:4]:
            work = c.copy()
            keep2 = work.copy()
            try:
                m(work)
            except Exception:  # noqa
                pass
            if snapshot(keep2) != snap:
                return 'Circuit.copy:copy-follows-original:%s' % m.__name__
        if snapshot(keep) != snap:
            return 'Circuit.copy:copy-changed'
    return None


MUT_KINDS = ['append_gate', 'insert_gate', 'pop', 'replace_gate', 'renumber', 'unfold', 'insert_qudit', 'pop_qudit',
             'batch_replace', 'fold', 'pop_cycle', 'replace_with_circuit', 'insert_circuit', 'compress', 'clear',
             'batch_pop', 'straighten', 'imul', 'iadd', 'extend', 'remove']


@rt.natively
def circ_run(xs: list, av: list) -> bool:
    rt.begin()
    S = rt.SHARD
    tags = Tags()
    npre = S['npre']
    try:
        circ = build_pre(S['W'], npre, xs[:5 * npre + 2], tags)
    except Exception:  # noqa  (pre-state construction is C04/C05's subject)
        return True
    if circ is None:
        return True
    subject = circ
    i = 0
    for kind in S.get('kinds', []):
        a = list(av[i:i + NA[kind]])
        i += NA[kind]
        o = do_call(subject, kind, a, tags)
        if o is None:
            return True
        if o.raised is None and o.subject is not None:
            subject = o.subject
    if rt.CONCRETE:
        rt.log('circuit', repr(subject), flat_of(subject))
    mk = S.get('mutate')
    if mk is None:
        rt.reach()
        fp = rt.nt(ship_oracle, subject, bool(S.get('battery', True)))
        return True if fp is None else rt.fail(fp)
    # copy, then ONE symbolic editing call on the copy; the original must not notice
    try:
        rt.nt(check_invariant, subject, 'sent')
    except Viol:
        return True
    snap = rt.nt(snapshot, subject)
    for nm, maker in (('Circuit.copy', lambda c: c.copy()), ('pickle', lambda c: pickle.loads(pickle.dumps(c))),
                      ('become', _become_deep)):
        cp = rt.nt(maker, subject)
        a = list(av[i:i + NA[mk]])
        o = do_call(cp, mk, a, tags)
        if o is None:
            return True
        rt.reach()
        if rt.nt(snapshot, subject) != snap:
            rt.log('mutating call', mk, a, 'on the', nm, 'copy changed the original to', repr(subject))
            return rt.fail('%s:shares-state:%s' % (nm, mk))
        try:
            rt.nt(check_invariant, subject, 'original after mutating the copy')
        except Viol as v:
            return rt.fail('%s:shares-state:%s:%s' % (nm, mk, v.fp))
    return True


# --------------------------------------------------------------------------- mixed radix / params
def radix_run(xs: list) -> bool:
    rt.begin()
    S = rt.SHARD
    src = Src(xs)
    W = 3
    import itertools
    try:
        rad = tuple(S['rad']) if 'rad' in S else tuple(2 + src.P(0, 1) for _ in range(W))
        circ = Circuit(W, rad)
        for i, spec in enumerate(S['items'].split(',')):
            kind = spec if spec in 'BT' else 'BT'[src.P(0, 1)]
            w = src.P(1, S.get('maxw', 2))
            locs = [tuple(p) for p in itertools.permutations(range(W), w)]
            loc = list(locs[src.P(0, len(locs) - 1)])
            cyc = src.P(0, circ.num_cycles)
            lr = tuple(rad[q] for q in loc)
            base = 10 * (i + 1)
            if kind == 'T':
                npar = src.P(0, 2)
                circ.insert_gate(cyc, TG(base, w, lr, npar), loc, [base + 0.25 * (k + 1) for k in range(npar)])
            else:
                sub = Circuit(w, lr)
                npar = src.P(0, 1)
                sub.append_gate(TG(base, w, lr, npar), list(range(w)), [base + 0.5] * npar)
                sub.append_gate(TG(base + 1, 1, lr[-1:], 1), [w - 1], [base + 0.75])
                circ.insert_circuit(cyc, sub, loc, True)
    except K.OutOfBound:
        return True
    if rt.CONCRETE:
        rt.log('radixes', rad, 'circuit', repr(circ), 'params', list(circ.params))
    rt.reach()
    fp = ship_oracle(circ, True)
    return True if fp is None else rt.fail(fp)


# --------------------------------------------------------------------------- PassData
PERMS3 = [(0, 1, 2), (0, 2, 1), (1, 0, 2), (1, 2, 0), (2, 0, 1), (2, 1, 0)]


def nf_pd(d: PassData) -> dict:
    """EVERY attribute of the instance (derived from __dict__ at check time)."""
    return {k: K.nf_value(v) for k, v in vars(d).items()}


def tagged_circuit(W: int, t: int) -> Circuit:
    c = Circuit(W)
    c.append_gate(TG(t, W), list(range(W)))
    c.append_gate(TG(t + 1, 1), [W - 1])
    return c


def mutate_pd(d: PassData) -> None:
    """Edits every field; containers are mutated IN PLACE."""
    d._placement.append(41)
    d._initial_mapping.reverse()
    d._initial_mapping.append(42)
    d._final_mapping.clear()
    d.error = 0.875
    d.seed = 4242
    for k in list(d._data):
        v = d._data[k]
        if isinstance(v, list):
            v.append('leak')
            for x in v:
                if isinstance(x, list):
                    x.append('leak')
        if isinstance(v, dict):
            v['leak'] = 1
    d._data['new-key'] = 1
    m = d._model
    m.gate_set = GateSet([])
    m.coupling_graph = CouplingGraph([(0, 1)], m.num_qudits)
    m.radixes = (5,) * m.num_qudits
    if isinstance(d._target, Circuit):
        d._target.append_gate(TG(777, 1), [0])
    else:
        d._target = K.u_const(3, 0)


def pd_run(xs: list) -> bool:
    rt.begin()
    S = rt.SHARD
    src = Src(xs)
    W = 3
    try:
        pl = PERMS3[src.P(0, 5)]
        im = PERMS3[src.P(0, 5)] if S.get('maps', True) else (1, 2, 0)
        fm = PERMS3[src.P(0, 5)] if S.get('maps', True) else (2, 0, 1)
        M = S.get('M', 3)
        edges = []
        if S.get('graph', True):
            for a in range(M):
                for b in range(a + 1, M):
                    if src.P(0, 1):
                        edges.append((a, b))
        else:
            edges = [(0, 1), (1, 2)]
        if S.get('scalars', False):
            err = [0.0, 0.25, 0.5][src.P(0, 2)]
            seed = [None, 3][src.P(0, 1)]
            user = src.P(0, 2)
            tgt = src.P(0, 1)
        else:
            err, seed, user, tgt = 0.25, 3, 1, 1
    except K.OutOfBound:
        return True

    def mk_src() -> PassData:
        c = tagged_circuit(W, 1)
        d = PassData(c)
        if tgt == 1:
            d.target = K.u_const(W, 1)
        d.model = MachineModel(M, CouplingGraph(edges, M))
        d.placement = list(pl)
        d.initial_mapping = list(im)
        d.final_mapping = list(fm)
        d.error = err
        d.seed = seed
        if user == 1:
            d['user'] = [1, [2, 3]]
        elif user == 2:
            d['user'] = {'a': [1]}
            d['other'] = 'x'
        return d

    def mk_other() -> PassData:
        """A receiver whose every field differs from the source's."""
        d = PassData(tagged_circuit(W, 50))
        d.target = K.u_const(W, 0)
        d.model = MachineModel(M + 1, CouplingGraph([(0, M)], M + 1))
        d.placement = list(pl[1:] + pl[:1])
        d.initial_mapping = list(im[1:] + im[:1])
        d.final_mapping = list(fm[1:] + fm[:1])
        d.error = err + 0.125
        d.seed = 11
        d['user'] = ['receiver']
        d['receiver-only'] = 1
        return d

    src_d = mk_src()
    snap = nf_pd(src_d)
    rt.reach()
    if rt.CONCRETE:
        rt.log('PassData', {k: v for k, v in snap.items() if k != '_target'})

    def same(name: str, got: PassData) -> 'str | None':
        if vars(got).keys() != vars(src_d).keys():
            return '%s:attribute-set-differs' % name
        d = K.first_diff(snap, nf_pd(got))
        if d is not None:
            rt.log(name, 'field', d, 'source', snap.get(d), 'receiver', nf_pd(got).get(d))
            return '%s:%s' % (name, d)
        return None

    def unchanged(name: str) -> 'str | None':
        d = K.first_diff(snap, nf_pd(src_d))
        if d is not None:
            rt.log(name, 'source field', d, 'was', snap.get(d), 'now', nf_pd(src_d).get(d))
            return '%s:shares-state:%s' % (name, d)
        return None

    # copy
    cp = src_d.copy()
    fp = same('PassData.copy', cp)
    if fp is None:
        mutate_pd(cp)
        fp = unchanged('PassData.copy')
    if fp is not None:
        return rt.fail(fp)
    # become, both variants
    for deep in (False, True):
        name = 'PassData.become(deepcopy=%s)' % deep
        dst = mk_other()
        dst.become(src_d, deep)
        fp = same(name, dst)
        if fp is None and deep:
            mutate_pd(dst)
            fp = unchanged(name)
        if fp is not None:
            return rt.fail(fp)
    # update: every key of the source
    dst = mk_other()
    dst.update(src_d)
    for key in src_d:
        if key == 'target':
            a, b = K.nf_value(src_d._target), K.nf_value(dst._target)
        else:
            a, b = K.nf_value(src_d[key]), K.nf_value(dst[key])
        if a != b:
            rt.log('update key', key, a, b)
            return rt.fail('PassData.update:%s' % key)
    if 'receiver-only' not in dst:
        return rt.fail('PassData.update:dropped-receiver-key')
    # byte layer
    for name, tr in (('pickle', lambda x: pickle.loads(pickle.dumps(x))), ('dill', lambda x: dill.loads(dill.dumps(x))),
                     ('copy.deepcopy', copy.deepcopy)):
        got = tr(src_d)
        fp = same('PassData.' + name, got)
        if fp is not None:
            return rt.fail(fp)
        g1, g2 = src_d.model.coupling_graph, got.model.coupling_graph
        if not (g1 == g2) or hash(g1) != hash(g2):
            rt.log('graph', sorted(g1), list(g1), list(g2))
            return rt.fail('CouplingGraph:eq-hash-after-%s' % name)
    wf = Workflow([K.Body(1)])
    c = tagged_circuit(W, 1)
    t = RuntimeTask((_sub_do_work, (wf, c, src_d), {}), RuntimeAddress(0, 1, 0), 0, ())
    f, a, k = t.fnargs
    fp = same('RuntimeTask.fnargs', a[2])
    if fp is not None:
        return rt.fail(fp)
    if snapshot(a[1]) != snapshot(c) or f is not _sub_do_work or struct(a[0]) != struct(wf):
        return rt.fail('RuntimeTask.fnargs:arguments-differ')
    return True


# --------------------------------------------------------------------------- Workflow
def struct(o: Any, depth: int = 0) -> Any:
    if isinstance(o, (BasePass, PassPredicate)):
        return (type(o).__module__ + '.' + type(o).__qualname__,
                tuple(sorted((k, struct(v, depth + 1)) for k, v in vars(o).items())))
    if isinstance(o, (list, tuple)):
        return tuple(struct(x, depth + 1) for x in o)
    if isinstance(o, dict):
        return tuple(sorted((repr(k), struct(v, depth + 1)) for k, v in o.items()))
    if callable(o):
        return ('fn', getattr(o, '__module__', None), getattr(o, '__qualname__', repr(o)))
    return o


def all_passes(o: Any, acc: list) -> list:
    if isinstance(o, (BasePass, PassPredicate)):
        acc.append(o)
        for v in vars(o).values():
            all_passes(v, acc)
    elif isinstance(o, (list, tuple)):
        for x in o:
            all_passes(x, acc)
    return acc


def run_wf(wf: Workflow) -> tuple:
    H.reset()
    H.script = [True, False, True, True, False, False, True, False] + [False] * 8
    circ = C11_circuit()
    data = PassData(circ)
    data.target = K.u_const(3, 0)
    exc = None
    try:
        K.drive(wf.run(circ, data))
    except Exception as e:  # noqa
        exc = type(e).__name__
    return exc, [x[:3] if x[0] == 'body' else x for x in H.trace], K.nf_top(circ), K.nf_data(data)


def C11_circuit() -> Circuit:
    from harness.C11 import ctl_circuit
    return ctl_circuit()


def wf_collect(op: Operation) -> bool:
    """Module-level collection filter shipped inside ForEachBlockPass."""
    return isinstance(op.gate, CircuitGate)


def wf_replace(circuit: Circuit, op: Operation) -> bool:
    """Module-level replace filter shipped inside ForEachBlockPass."""
    return True


def wf_run(xs: list) -> bool:
    rt.begin()
    S = rt.SHARD
    src = Src(xs)
    try:
        tree = gen_tree(src, S)
    except K.OutOfBound:
        return True
    wf = Workflow([K.build_pass(tree, 3), K.Body(99)], 'named')
    from bqskit.passes.control.foreach import ForEachBlockPass
    for p in all_passes(wf, []):
        if isinstance(p, ForEachBlockPass):
            p.collection_filter = wf_collect
            p.replace_filter = wf_replace
    st = struct(wf)
    rt.reach()
    if rt.CONCRETE:
        rt.log('tree', tree)
    base = run_wf(wf)
    if struct(wf) != st:
        return rt.fail('Workflow:running-changes-the-workflow')
    for name, tr in (('pickle', lambda x: pickle.loads(pickle.dumps(x))), ('dill', lambda x: dill.loads(dill.dumps(x))),
                     ('copy.deepcopy', copy.deepcopy), ('Workflow(workflow)', lambda x: Workflow(x)),
                     ('RuntimeTask.fnargs', lambda x: RuntimeTask((_sub_do_work, (x,), {}), RuntimeAddress(0, 0, 0), 0, ()).fnargs[1][0])):
        try:
            w2 = tr(wf)
        except Exception as e:  # noqa
            rt.log(name, 'raised', repr(e))
            return rt.fail('Workflow.%s:raised:%s' % (name, type(e).__name__))
        if w2 is wf or not isinstance(w2, Workflow):
            return rt.fail('Workflow.%s:same-object' % name)
        if struct(w2) != st:
            rt.log('sent   ', st)
            rt.log('arrived', struct(w2))
            return rt.fail('Workflow.%s:structure-differs' % name)
        if w2.name != wf.name or len(w2) != len(wf):
            return rt.fail('Workflow.%s:name-or-length' % name)
        # no pass object shared with the original
        ids = {id(p) for p in all_passes(wf, [])}
        if any(id(p) in ids for p in all_passes(w2, [])):
            return rt.fail('Workflow.%s:shares-pass-objects' % name)
        if run_wf(w2) != base:
            return rt.fail('Workflow.%s:behaves-differently' % name)
        w2._passes.append(K.Body(5))
        for p in all_passes(w2, []):
            if hasattr(p, 'bid'):
                p.bid = -1
        if struct(wf) != st:
            return rt.fail('Workflow.%s:shares-state' % name)
    return True


# --------------------------------------------------------------------------- graphs / models / gate sets
def graph_run(xs: list) -> bool:
    rt.begin()
    S = rt.SHARD
    src = Src(xs)
    n = S['n']
    try:
        pairs = [(a, b) for a in range(n) for b in range(a + 1, n)]
        edges = [p for p in pairs if src.P(0, 1)]
        order = src.P(0, 1)
        remote = bool(S.get('remote', False)) and bool(edges) and bool(src.P(0, 1))
    except K.OutOfBound:
        return True
    if order:
        edges = [(b, a) for (a, b) in reversed(edges)]
    g = CouplingGraph(edges, n, remote_edges=edges[:1] if remote else [], edge_weights_overrides={edges[-1]: 2.5} if remote else {})
    m = MachineModel(n, g)
    rt.reach()
    if rt.CONCRETE:
        rt.log('edges', edges, 'remote', remote)
    for name, tr in (('pickle', lambda x: pickle.loads(pickle.dumps(x))), ('dill', lambda x: dill.loads(dill.dumps(x))),
                     ('copy.deepcopy', copy.deepcopy)):
        g2 = tr(g)
        if vars_nf(g2) != vars_nf(g):
            return rt.fail('CouplingGraph.%s:field:%s' % (name, K.first_diff(vars_nf(g), vars_nf(g2))))
        if not (g2 == g) or not (g == g2):
            return rt.fail('CouplingGraph.%s:not-equal' % name)
        if hash(g2) != hash(g):
            rt.log('edge iteration order sent', list(g), 'arrived', list(g2))
            return rt.fail('CouplingGraph.%s:hash-differs-for-equal-graphs' % name)
        if set(g2) != set(g) or g2.num_qudits != g.num_qudits or [sorted(g2.get_neighbors_of(q)) for q in range(n)] != \
                [sorted(g.get_neighbors_of(q)) for q in range(n)]:
            return rt.fail('CouplingGraph.%s:public-api' % name)
        m2 = tr(m)
        if vars(m2).keys() != vars(m).keys() or K.nf_model(m2) != K.nf_model(m):
            return rt.fail('MachineModel.%s:differs' % name)
        if not (m2.coupling_graph == m.coupling_graph) or set(m2.gate_set) != set(m.gate_set):
            return rt.fail('MachineModel.%s:graph-or-gateset' % name)
        if hash(m2.gate_set) != hash(m.gate_set):
            return rt.fail('GateSet.%s:hash' % name)
        if [g_.name for g_ in sorted(m2.gate_set, key=repr)] != [g_.name for g_ in sorted(m.gate_set, key=repr)]:
            return rt.fail('GateSet.%s:members' % name)
    return True


# --------------------------------------------------------------------------- library gates / CachedClass
def sample_gates() -> list:
    from bqskit.ir.gates import (CNOTGate, ConstantUnitaryGate, ControlledGate, CSUMGate, DaggerGate,
                                 FrozenParameterGate, HGate, IdentityGate, PauliGate, RZGate, TaggedGate, U3Gate,
                                 VariableUnitaryGate, CCXGate)
    return [
        (lambda: CNOTGate(), True), (lambda: HGate(), True), (lambda: U3Gate(), True), (lambda: RZGate(), True),
        (lambda: CCXGate(), True), (lambda: CSUMGate(3), True), (lambda: IdentityGate(2), True),
        (lambda: PauliGate(1), True), (lambda: VariableUnitaryGate(1), True),
        (lambda: ControlledGate(RZGate()), False), (lambda: DaggerGate(U3Gate()), False),
        (lambda: TaggedGate(HGate(), 'x'), False), (lambda: FrozenParameterGate(U3Gate(), {0: 0.5}), False),
        (lambda: ConstantUnitaryGate(np.array([[0, 1], [1, 0]])), False),
    ]


def gate_run(xs: list) -> bool:
    rt.begin()
    src = Src(xs)
    gs = sample_gates()
    mk, _ = gs[src.P(0, len(gs) - 1)]
    g = mk()
    rt.reach()
    if rt.CONCRETE:
        rt.log('gate', repr(g))
    params = [0.1 * (i + 1) for i in range(g.num_params)]
    u = g.get_unitary(params)
    for name, tr in (('pickle', lambda x: pickle.loads(pickle.dumps(x))), ('dill', lambda x: dill.loads(dill.dumps(x))),
                     ('copy.copy', copy.copy), ('copy.deepcopy', copy.deepcopy)):
        g2 = tr(g)
        if type(g2) is not type(g) or not (g2 == g) or not (g == g2) or hash(g2) != hash(g):
            return rt.fail('gate.%s:eq-hash' % name)
        if g2.name != g.name or g2.num_params != g.num_params or tuple(g2.radixes) != tuple(g.radixes):
            return rt.fail('gate.%s:attributes' % name)
        if not np.allclose(g2.get_unitary(params).numpy, u.numpy):
            return rt.fail('gate.%s:unitary' % name)
        if isinstance(g, CachedClass) and isinstance(mk(), CachedClass) and mk() is g and g2 is not g:
            return rt.fail('gate.%s:cached-singleton-duplicated' % name)
    loc = list(range(g.num_qudits))
    c = Circuit(g.num_qudits, g.radixes)
    c.append_gate(g, loc, params)
    c.append_gate(g, loc, params)
    for name, tr in (('pickle', lambda x: pickle.loads(pickle.dumps(x))), ('Circuit.copy', lambda x: x.copy()),
                     ('copy.deepcopy', copy.deepcopy)):
        c2 = tr(c)
        if not (c2 == c) or snapshot(c2) != snapshot(c):
            return rt.fail('gate-in-circuit.%s:differs' % name)
        if not np.allclose(c2.get_unitary().numpy, c.get_unitary().numpy):
            return rt.fail('gate-in-circuit.%s:unitary' % name)
        if c2[0, 0].gate is not c2[1, 0].gate and isinstance(g, CachedClass) and mk() is g:
            return rt.fail('gate-in-circuit.%s:cached-singleton-duplicated' % name)
    return True



# --------------------------------------------------------------------------- every gate class x how it is constructed
def _arg_domain(cls_name: str, pname: str, chosen: dict) -> list:
    """Small value domain of a constructor parameter (by parameter name). [] = class not in this family."""
    from bqskit.ir.gates import HGate, RZGate, U3Gate
    n = chosen.get('num_qudits', 1)
    if pname == 'radix':
        return [2, 3, 4]
    if pname == 'num_qudits':
        return [1, 2, 3]
    if pname == 'radixes':
        if cls_name == 'ArbitraryCPhaseGate':
            return [(2, 2), (2, 3), (3, 2)]
        return [[], [3] * n, [2] * n]
    if pname == 'index':
        return [0, 1, 2]
    if pname == 'target_qubit':
        return [-1, 0]
    if pname == 'num_controls':
        return [1, 2]
    if pname == 'control_radixes':
        return [2, 3]
    if pname == 'control_levels':
        return [None]
    if pname == 'gate':
        return [U3Gate(), RZGate(), HGate(3)]
    if pname == 'power':
        return [1, 2, -1]
    if pname == 'tag':
        return ['x', 7]
    if pname == 'frozen_params':
        return [{0: 0.5}]
    if pname == 'utry':
        return [np.array([[0, 1], [1, 0]], dtype=complex)]
    if pname == 'location':
        return [tuple(reversed(range(n))), tuple(range(n))]
    if pname == 'qudit_levels':
        return ['0,1;1,0', '1,2;2,1']
    return []


def gate_classes() -> list:
    """Every Gate class exported by bqskit.ir.gates whose constructor takes only parameters with a domain above."""
    import inspect
    import bqskit.ir.gates as G
    out = []
    for name in sorted(G.__all__):
        cls = getattr(G, name)
        if not (inspect.isclass(cls) and issubclass(cls, Gate)) or inspect.isabstract(cls):
            continue
        if name in ('ComposedGate', 'GeneralGate', 'QuditGate', 'QubitGate', 'ConstantGate'):
            continue
        ps = list(inspect.signature(cls.__init__).parameters.values())[1:]
        if any(p.kind in (p.VAR_POSITIONAL, p.VAR_KEYWORD) for p in ps):
            ps = []          # no-argument singletons: (*args, **kwargs) of CachedClass
        if any(not _arg_domain(name, p.name, {}) for p in ps):
            continue         # CircuitGate, MeasurementPlaceholder, EmbeddedGate, VariableLocationGate: other families
        out.append((name, cls, [(p.name, p.default is not inspect.Parameter.empty) for p in ps]))
    return out


STYLES = ['positional', 'keyword', 'required-only', 'required-positional+optional-keyword', 'keyword-reversed']


def gatex_run(xs: list) -> bool:
    """A gate of SYMBOLIC class, built with SYMBOLIC argument values bound in a SYMBOLIC style (positional / keyword /
    defaults omitted / mixed / keywords in reverse order), must survive pickle, dill, copy and deepcopy equal to what
    was sent - also after the receiving side has built a default instance of the same class (CachedClass shares
    instances per construction key) - and so must a circuit holding it."""
    rt.begin()
    src = Src(xs)
    classes = gate_classes()
    lo, hi = rt.SHARD.get('classes', [0, len(classes) - 1])
    name, cls, params = classes[src.P(lo, min(hi, len(classes) - 1))]
    style = STYLES[src.P(0, len(STYLES) - 1)] if params else 'positional'
    chosen: dict = {}
    for pname, _ in params:
        dom = _arg_domain(name, pname, chosen)
        chosen[pname] = dom[src.P(0, len(dom) - 1)]

    def build() -> Any:
        args: list = []
        kw: dict = {}
        for pname, has_default in params:
            if style == 'positional':
                args.append(chosen[pname])
            elif style in ('keyword', 'keyword-reversed'):
                kw[pname] = chosen[pname]
            elif style == 'required-only':
                if not has_default:
                    args.append(chosen[pname])
            else:
                if has_default:
                    kw[pname] = chosen[pname]
                else:
                    args.append(chosen[pname])
        if style == 'keyword-reversed':
            kw = dict(reversed(list(kw.items())))
        return cls(*args, **kw)
    try:
        g = build()
        g.radixes, g.num_params, g.num_qudits
    except Exception:  # noqa   (argument combination outside the constructor's domain)
        return True
    rt.reach()
    if rt.CONCRETE:
        rt.log('gate', name, 'style', style, 'arguments', {k: repr(v)[:40] for k, v in chosen.items()}, '->', repr(g))
    params_v = [0.1 * (i + 1) for i in range(g.num_params)]
    numeric = True
    try:
        u = g.get_unitary(params_v).numpy
    except Exception:  # noqa   (placeholders have no unitary)
        numeric = False
    radixes, nm, npar = tuple(g.radixes), g.name, g.num_params
    for trn, tr in (('pickle', lambda x: pickle.loads(pickle.dumps(x))), ('dill', lambda x: dill.loads(dill.dumps(x))),
                    ('copy.copy', copy.copy), ('copy.deepcopy', copy.deepcopy)):
        try:
            g2 = tr(g)
        except Exception as e:  # noqa
            rt.log(trn, 'raised', repr(e))
            return rt.fail('gatex.%s:raised:%s' % (trn, type(e).__name__))
        for phase in ('arrival', 'after-default-instance'):
            if phase == 'after-default-instance':
                try:                       # ordinary library use on the receiving side
                    cls(*[chosen[pn] for pn, d in params if not d])
                except Exception:  # noqa
                    pass
            if type(g2) is not type(g) or not (g2 == g) or not (g == g2) or hash(g2) != hash(g):
                return rt.fail('gatex.%s:eq-hash:%s' % (trn, phase))
            if g2.name != nm or g2.num_params != npar or tuple(g2.radixes) != radixes or tuple(g.radixes) != radixes:
                rt.log(trn, phase, 'radixes sent', radixes, 'received', tuple(g2.radixes), 'sender now', tuple(g.radixes))
                return rt.fail('gatex.%s:attributes:%s' % (trn, phase))
            if numeric and not np.allclose(g2.get_unitary(params_v).numpy, u):
                return rt.fail('gatex.%s:unitary:%s' % (trn, phase))
    if not numeric:
        return True
    c = Circuit(g.num_qudits, g.radixes)
    c.append_gate(g, list(range(g.num_qudits)), params_v)
    op = c[0, 0]
    cu = c.get_unitary().numpy
    for trn, tr in (('pickle', lambda x: pickle.loads(pickle.dumps(x))), ('Circuit.copy', lambda x: x.copy()),
                    ('copy.deepcopy', copy.deepcopy)):
        c2 = tr(c)
        if not (c2 == c) or snapshot(c2) != snapshot(c) or c2.gate_set != c.gate_set:
            return rt.fail('gatex-in-circuit.%s:differs' % trn)
        if not np.allclose(c2.get_unitary().numpy, cu):
            return rt.fail('gatex-in-circuit.%s:unitary' % trn)
    op2 = pickle.loads(pickle.dumps(op))
    if op2 != op or tuple(op2.radixes) != tuple(op.radixes) or list(op2.params) != list(op.params):
        return rt.fail('gatex-operation.pickle:differs')
    return True


# --------------------------------------------------------------------------- entries
def circ(x0: int, x1: int, x2: int, x3: int, x4: int, x5: int, x6: int, x7: int, x8: int, x9: int, x10: int, x11: int,
         x12: int, x13: int, x14: int, x15: int, x16: int, a0: int, a1: int, a2: int, a3: int, a4: int, a5: int,
         a6: int, a7: int, a8: int, a9: int, a10: int, a11: int, a12: int, a13: int, a14: int, a15: int, a16: int,
         a17: int, a18: int, a19: int) -> bool:
    """
    post: _
    """
    return circ_run([x0, x1, x2, x3, x4, x5, x6, x7, x8, x9, x10, x11, x12, x13, x14, x15, x16],
                    [a0, a1, a2, a3, a4, a5, a6, a7, a8, a9, a10, a11, a12, a13, a14, a15, a16, a17, a18, a19])


def radix(x0: int, x1: int, x2: int, x3: int, x4: int, x5: int, x6: int, x7: int, x8: int, x9: int, x10: int,
          x11: int, x12: int, x13: int, x14: int, x15: int, x16: int, x17: int, x18: int, x19: int, x20: int,
          x21: int, x22: int, x23: int) -> bool:
    """
    post: _
    """
    return rt.nt(radix_run, [x0, x1, x2, x3, x4, x5, x6, x7, x8, x9, x10, x11, x12, x13, x14, x15, x16, x17, x18, x19,
                             x20, x21, x22, x23])


def pd(x0: int, x1: int, x2: int, x3: int, x4: int, x5: int, x6: int, x7: int, x8: int, x9: int, x10: int,
       x11: int, x12: int, x13: int, x14: int, x15: int, x16: int, x17: int, x18: int, x19: int, x20: int,
       x21: int, x22: int, x23: int) -> bool:
    """
    post: _
    """
    return rt.nt(pd_run, [x0, x1, x2, x3, x4, x5, x6, x7, x8, x9, x10, x11, x12, x13, x14, x15, x16, x17, x18, x19,
                          x20, x21, x22, x23])


def wf(x0: int, x1: int, x2: int, x3: int, x4: int, x5: int, x6: int, x7: int, x8: int, x9: int, x10: int,
       x11: int, x12: int, x13: int, x14: int, x15: int, x16: int, x17: int, x18: int, x19: int, x20: int,
       x21: int, x22: int, x23: int) -> bool:
    """
    post: _
    """
    return rt.nt(wf_run, [x0, x1, x2, x3, x4, x5, x6, x7, x8, x9, x10, x11, x12, x13, x14, x15, x16, x17, x18, x19,
                          x20, x21, x22, x23])


def graph(x0: int, x1: int, x2: int, x3: int, x4: int, x5: int, x6: int, x7: int, x8: int, x9: int, x10: int,
          x11: int, x12: int, x13: int, x14: int, x15: int, x16: int, x17: int, x18: int, x19: int, x20: int,
          x21: int, x22: int, x23: int) -> bool:
    """
    post: _
    """
    return rt.nt(graph_run, [x0, x1, x2, x3, x4, x5, x6, x7, x8, x9, x10, x11, x12, x13, x14, x15, x16, x17, x18, x19,
                             x20, x21, x22, x23])


def gate(x0: int, x1: int, x2: int, x3: int, x4: int, x5: int, x6: int, x7: int, x8: int, x9: int, x10: int,
         x11: int, x12: int, x13: int, x14: int, x15: int, x16: int, x17: int, x18: int, x19: int, x20: int,
         x21: int, x22: int, x23: int) -> bool:
    """
    post: _
    """
    return rt.nt(gate_run, [x0, x1, x2, x3, x4, x5, x6, x7, x8, x9, x10, x11, x12, x13, x14, x15, x16, x17, x18, x19,
                            x20, x21, x22, x23])


def gatex(x0: int, x1: int, x2: int, x3: int, x4: int, x5: int, x6: int, x7: int) -> bool:
    """
    post: _
    """
    return rt.nt(gatex_run, [x0, x1, x2, x3, x4, x5, x6, x7])


HIST = ['pop', 'replace_gate', 'fold', 'unfold', 'renumber', 'insert_qudit', 'pop_qudit', 'batch_pop', 'batch_replace',
        'append_circuit', 'replace_with_circuit', 'compress', 'pop_cycle', 'straighten', 'remove', 'imul', 'iadd',
        'insert_gate', 'fold_unfold', 'batch_unfold']
HIST_W3_CHEAP = ['unfold', 'pop_qudit', 'insert_qudit', 'compress', 'pop_cycle', 'remove']
MUT_QUICK = ['append_gate', 'insert_gate', 'pop', 'replace_gate', 'renumber', 'unfold', 'pop_qudit', 'batch_replace']


def obligations(tier: str) -> list[dict]:
    obs: list = []

    def ob(name: str, func: str, shard: dict, timeout: int) -> None:
        obs.append({'name': name, 'func': func, 'shard': shard, 'timeout': timeout})

    outers = ['if', 'while', 'dowhile', 'dtd', 'pardo', 'pardof', 'pardo3', 'seq', 'foreach']
    if tier == 'quick':
        T = 300
        ob('circ/pre2/W3', 'circ', {'W': 3, 'npre': 2, 'kinds': [], 'codes': [1, 2, 5], 'prepop': False}, T)
        ob('circ/pre2/W2/gaps', 'circ', {'W': 2, 'npre': 2, 'kinds': [], 'codes': [1, 2, 5, 6]}, T)
        ob('circ/pre3/W2', 'circ', {'W': 2, 'npre': 3, 'kinds': [], 'codes': [1, 5], 'prepop': False}, T)
        for k in HIST:
            sh = {'W': 2, 'npre': 1, 'kinds': [k], 'battery': k in ('fold', 'unfold', 'pop')}
            if k in ('batch_pop', 'append_circuit', 'batch_replace'):
                sh['codes'] = [1, 2, 5]
            ob('circ/%s/W2' % k, 'circ', sh, T)
        for k in HIST_W3_CHEAP:
            ob('circ/%s/W3' % k, 'circ', {'W': 3, 'npre': 1, 'kinds': [k], 'codes': [1, 2, 3, 5], 'battery': False}, T)
        for k in MUT_QUICK:
            ob('circ/copy-then-%s' % k, 'circ', {'W': 2, 'npre': 1, 'kinds': [], 'mutate': k, 'codes': [1, 2, 5]}, T)
        ob('radix/1item', 'radix', {'items': '?'}, T)
        for first in 'BT':
            ob('radix/%s,?/r232' % first, 'radix', {'items': first + ',?', 'rad': [2, 3, 2]}, T)
        ob('pd/mappings-x-graph', 'pd', {}, T)
        ob('pd/scalars', 'pd', {'maps': False, 'graph': False, 'scalars': True}, T)
        for o in outers:
            ob('wf/%s' % o, 'wf', {'outer': o, 'preds': ['s', 'n', 'a', 'o', 'c', 'g']}, T)
        ob('graph/n4', 'graph', {'n': 4}, T)
        ob('graph/n5', 'graph', {'n': 5}, T)
        ob('gate/samples', 'gate', {}, T)
        for lo in range(0, len(gate_classes()), 20):
            ob('gate/classes%d-%d/styles' % (lo, lo + 19), 'gatex', {'classes': [lo, lo + 19]}, T)
    else:
        T = 3000
        ob('circ/pre2/W3', 'circ', {'W': 3, 'npre': 2, 'kinds': []}, T)
        ob('circ/pre3/W2', 'circ', {'W': 2, 'npre': 3, 'kinds': [], 'prepop': False}, T)
        ob('circ/pre3/W3', 'circ', {'W': 3, 'npre': 3, 'kinds': [], 'codes': [1, 2, 5], 'prepop': False, 'battery': False}, T)
        for k in sorted(set(HIST + MUT_KINDS)):
            ob('circ/%s/W3' % k, 'circ', {'W': 3, 'npre': 1, 'kinds': [k]}, T)
            ob('circ/%s/W2/pre2' % k, 'circ', {'W': 2, 'npre': 2, 'kinds': [k], 'codes': [1, 2, 5], 'battery': False}, T)
        for k1 in ['fold', 'renumber', 'pop_qudit', 'insert_qudit', 'batch_replace', 'replace_with_circuit']:
            for k2 in ['pop', 'unfold', 'replace_gate', 'insert_gate']:
                ob('circ/%s+%s' % (k1, k2), 'circ', {'W': 2, 'npre': 1, 'kinds': [k1, k2], 'battery': False}, T)
        for k in MUT_KINDS:
            ob('circ/copy-then-%s/W3' % k, 'circ', {'W': 3, 'npre': 1, 'kinds': [], 'mutate': k, 'codes': [1, 2, 5]}, T)
            ob('circ/copy-then-%s/W2/pre2' % k, 'circ', {'W': 2, 'npre': 2, 'kinds': [], 'mutate': k, 'codes': [1, 2, 5],
                                                         'prepop': False}, T)
        for first in 'BT':
            ob('radix/%s,?' % first, 'radix', {'items': first + ',?'}, T)
            for second in 'BT':
                ob('radix/%s,%s,?/r232' % (first, second), 'radix', {'items': '%s,%s,?' % (first, second), 'rad': [2, 3, 2],
                                                                     'maxw': 2}, T)
        ob('pd/mappings-x-graph', 'pd', {}, T)
        ob('pd/placement-x-graph/M4', 'pd', {'M': 4, 'maps': False}, T)
        ob('pd/scalars-x-graph', 'pd', {'maps': False, 'graph': True, 'scalars': True}, T)
        for o in outers + ['pardof3']:
            ob('wf/%s' % o, 'wf', {'outer': o, 'preds': ['s', 'n', 'a', 'o', 'c', 'g'], 'nest_all': o not in ('pardo3', 'pardof3')}, T)
        ob('graph/n5/remote', 'graph', {'n': 5, 'remote': True}, T)
        ob('graph/n6', 'graph', {'n': 6}, T)
        ob('gate/samples', 'gate', {}, T)
        for lo in range(0, len(gate_classes()), 10):
            ob('gate/classes%d-%d/styles' % (lo, lo + 9), 'gatex', {'classes': [lo, lo + 9]}, T)
    return obs
