"""C01 - compile() preserves semantics under the reported mappings (partial: bookkeeping half).

The REAL `bqskit.compile(circuit, model, optimization_level=k, with_mapping=True)` is executed:
real `build_workflow`, real Workflow / IfThenElse / WhileLoop / ForEachBlock / predicates,
QuickPartitioner, ExtendBlockSize, GroupSingleQuditGate, Unfold, Extract/RestoreMeasurements,
SetModel, Extract/RestoreModelConnectivity, GreedyPlacement, GeneralizedSabreLayout/Routing,
ApplyPlacement, LogError, analytic single-qudit decompositions - on the real runtime objects of
the E3 simulator (one worker, baseline schedule). Only the optimiser-driven leaf passes
(QSearch, LEAP, ScanningGateRemoval, AutoRebase2QuditGate, PermutationAwareSynthesis, ...) are
replaced by the weakest stub their contract allows: they leave the circuit unchanged.
Symbolic (split) inputs: the circuit (gate kinds and locations), the model's coupling graph
(edge bits), its width, the optimisation level and options. Oracle: exact linear-algebra
comparison of input and output under the returned mappings (dimension <= 32), mapping
injectivity, coupling of every multi-qudit gate, measurement placement.
"""
from __future__ import annotations

from typing import Any

from vf import rt

PROPERTY = 'C01'
LEVEL = 'model_checking'
RULE = ('one case = (circuit, coupling graph, machine width, optimisation level, options) executed through the real '
        'compile() workflow with optimiser leaves stubbed; non-trivial = the circuit has a 2-qudit gate on uncoupled '
        'qudits or a measurement or the machine is wider than the circuit')
ENCODED = [
    'bqskit.compiler.compile:compile/build_workflow/_circuit_workflow/_opt1_workflow/_opt2_workflow/_opt3_workflow/'
    'build_multi_qudit_retarget_workflow/build_single_qudit_retarget_workflow/build_sabre_mapping_workflow/'
    'build_partitioning_workflow/build_gate_deletion_optimization_workflow/build_resynthesis_optimization_workflow',
    'bqskit.compiler.workflow:Workflow.run', 'bqskit.compiler.passdata:PassData', 'bqskit.passes.control.*',
    'bqskit.passes.partitioning.quick:QuickPartitioner', 'bqskit.passes.util.*', 'bqskit.passes.measure:*',
    'bqskit.passes.mapping.setmodel:*', 'bqskit.passes.mapping.placement.greedy:GreedyPlacementPass',
    'bqskit.passes.mapping.layout.sabre:GeneralizedSabreLayoutPass', 'bqskit.passes.mapping.routing.sabre:'
    'GeneralizedSabreRoutingPass', 'bqskit.passes.mapping.sabre:GeneralizedSabreAlgorithm',
    'bqskit.passes.mapping.apply:ApplyPlacement', 'bqskit.runtime.worker:Worker (task execution)',
]
STUBBED = ['QSearchSynthesisPass', 'LEAPSynthesisPass', 'ScanningGateRemovalPass', 'TreeScanningGateRemovalPass',
           'AutoRebase2QuditGatePass', 'Rebase2QuditGatePass', 'PermutationAwareSynthesisPass', 'QFASTDecompositionPass',
           'IterativeScanningGateRemovalPass', 'ExhaustiveGateRemovalPass', 'SubstitutePass']
ASSUMPTIONS = [
    'optimiser-driven leaf passes (%s) are stubbed to leave the circuit unchanged - the weakest behaviour their '
    'contract allows; their numerical contract (distance < success threshold) is outside this check' % ', '.join(STUBBED),
    'runtime = E3 simulator with one worker and the baseline schedule (schedule independence is C07)',
    'unitaries compared numerically (exact gates, dimension <= 32, tolerance 1e-8): with the stubs no approximation '
    'enters, so the comparison is exact up to rounding',
]
BOUNDS = {
    'quick': 'optimisation levels 1-3; circuits of <=3 operations (CNOT, CZ, U3 with distinct parameters, H, a 3-qubit CCX, '
             'barrier, trailing measurement) on 2-3 logical qubits; models: every connected coupling graph on 3 vertices and '
             'lines/stars/rings on 4; machine wider than the circuit by 0-1; list input: compile([A, B], with_mapping=True) with '
             'two CNOTs at symbolic locations in each input on the 3-qubit line, every entry judged against its own input',
    'thorough': 'levels 1-3, <=4 operations, <=4 logical / 5 physical qubits, every connected graph on <=4 vertices + line/'
                'ring/star on 5, error_threshold set/unset, max_synthesis_size 2-3',
}
OUTSIDE = ('the distance budget of the numerical passes; level 4 (PAM needs synthesised permutation data); number of '
           'workers; circuits wider than 4; non-qubit radixes')

GATES = ['cx', 'cz', 'u3', 'h', 'ccx', 'barrier']


# Contract between ForEachBlockPass and the (stubbed) leaf passes: a leaf may use every edge of the sub-model it is
# given, so the sub-model must be faithful to the physical graph under the placement in force. Each stubbed leaf call
# inside a block records (placement, physical edges) of the enclosing ForEachBlockPass run and its own sub-model.
CONTRACT: list = []
_FOREACH_CTX: list = []


def submodel_violations() -> list:
    """Sub-model edges that are not edges between the block's physical qudits."""
    bad = []
    for (placement, phys, subnumbering, subedges, leaf) in CONTRACT:
        inv = {v: k for k, v in subnumbering.items()}
        for (a, b) in subedges:
            if a not in inv or b not in inv:
                bad.append((leaf, 'sub-model edge on a qudit the block does not have', (a, b)))
                continue
            qa, qb = inv[a], inv[b]
            if qa >= len(placement) or qb >= len(placement):
                bad.append((leaf, 'block qudit outside the placement', (qa, qb)))
                continue
            pa, pb = placement[qa], placement[qb]
            if (min(pa, pb), max(pa, pb)) not in phys:
                bad.append((leaf, 'sub-model offers (%d,%d) = logical (%d,%d) = physical (%d,%d), not coupled' % (
                    a, b, qa, qb, pa, pb), (a, b)))
    return bad


def _install_stubs() -> None:
    import bqskit.passes as P
    from bqskit.passes.control.foreach import ForEachBlockPass

    async def run(self: Any, circuit: Any, data: Any) -> None:
        if 'subnumbering' in data and _FOREACH_CTX:
            placement, phys = _FOREACH_CTX[-1]
            sub = {int(k): int(v) for k, v in data['subnumbering'].items()}
            CONTRACT.append((placement, phys, sub, sorted((min(a, b), max(a, b)) for a, b in data.model.coupling_graph),
                             type(self).__name__))
        return None
    for name in STUBBED:
        cls = getattr(P, name, None)
        if cls is not None and not getattr(cls, '_vf_stubbed', False):
            cls.run = run
            cls._vf_stubbed = True
    if not getattr(ForEachBlockPass, '_vf_wrapped', False):
        orig = ForEachBlockPass.run

        async def fe_run(self: Any, circuit: Any, data: Any) -> None:
            _FOREACH_CTX.append((list(data.placement),
                                 {(min(a, b), max(a, b)) for a, b in data.model.coupling_graph}))
            try:
                return await orig(self, circuit, data)
            finally:
                _FOREACH_CTX.pop()
        ForEachBlockPass.run = fe_run
        ForEachBlockPass._vf_wrapped = True


def build_circuit(n: int, ops: list, measure: list) -> Any:
    from bqskit.ir.circuit import Circuit
    from bqskit.ir.gates import (BarrierPlaceholder, CCXGate, CNOTGate, CZGate, HGate, MeasurementPlaceholder,
                                 U3Gate)
    c = Circuit(n)
    for i, (g, loc) in enumerate(ops):
        if g == 'cx':
            c.append_gate(CNOTGate(), loc)
        elif g == 'cz':
            c.append_gate(CZGate(), loc)
        elif g == 'u3':
            c.append_gate(U3Gate(), loc, [0.3 + 0.41 * i, 1.1 - 0.27 * i, -0.7 + 0.13 * i])
        elif g == 'h':
            c.append_gate(HGate(), loc)
        elif g == 'ccx':
            c.append_gate(CCXGate(), loc)
        elif g == 'barrier':
            c.append_gate(BarrierPlaceholder(len(loc)), loc)
    if measure:
        meas = {q: ('c', k) for k, q in enumerate(measure)}
        c.append_gate(MeasurementPlaceholder([('c', len(measure))], meas), list(measure))
    return c


def strip(circ: Any) -> Any:
    """Copy without barriers / measurements (for the unitary)."""
    from bqskit.ir.circuit import Circuit
    from bqskit.ir.gates import BarrierPlaceholder, MeasurementPlaceholder
    out = Circuit(circ.num_qudits, circ.radixes)
    for op in circ:
        if isinstance(op.gate, (BarrierPlaceholder, MeasurementPlaceholder)):
            continue
        out.append(op)
    return out


def judge(inp: Any, model: Any, result: Any, measure: list) -> str | None:
    import numpy as np
    from bqskit.ir.gates import BarrierPlaceholder, MeasurementPlaceholder
    if not (isinstance(result, tuple) and len(result) == 3):
        return 'compile-returned-unexpected-shape'
    out, pi, pf = result
    n, m = inp.num_qudits, model.num_qudits
    pi, pf = [int(x) for x in pi], [int(x) for x in pf]
    if out.num_qudits != m or tuple(out.radixes) != tuple(model.radixes):
        return 'output-width-or-radixes'
    for mp, name in ((pi, 'initial'), (pf, 'final')):
        if len(mp) != n or len(set(mp)) != n or any(q < 0 or q >= m for q in mp):
            return '%s-mapping-not-injective-into-machine' % name
    # coupling: every multi-qudit gate on coupled physical qudits
    edges = {(min(a, b), max(a, b)) for a, b in model.coupling_graph}
    for op in out:
        if isinstance(op.gate, (BarrierPlaceholder, MeasurementPlaceholder)):
            continue
        if op.num_qudits == 2:
            a, b = op.location
            if (min(a, b), max(a, b)) not in edges:
                return 'two-qudit-gate-on-uncoupled-qudits'
    # measurements reappear on the physical qudits holding the measured logical qudits
    mops = [op for op in out if isinstance(op.gate, MeasurementPlaceholder)]
    if measure:
        if len(mops) != 1:
            return 'measurement-placeholder-count'
        got = {int(q): tuple(c) for q, c in mops[0].gate.measurements.items()}
        exp = {pf[q]: ('c', k) for k, q in enumerate(measure)}
        if got != exp or sorted(mops[0].location) != sorted(exp):
            return 'measurement-on-wrong-physical-qudits'
        pts = [(c, op) for c, op in out.operations_with_cycles()]
        last_cycle = {}
        for c, op in pts:
            for q in op.location:
                last_cycle[q] = max(last_cycle.get(q, -1), c)
        mc = [c for c, op in pts if op is mops[0] or isinstance(op.gate, MeasurementPlaceholder)][0]
        if any(last_cycle[q] > mc for q in mops[0].location):
            return 'measurement-not-last-on-its-qudits'
    elif mops:
        return 'spurious-measurement'
    # linear map under the mappings
    Uin = strip(inp).get_unitary().numpy
    Uout = strip(out).get_unitary().numpy
    A = np.zeros((2 ** m, 2 ** n), dtype=complex)
    B = np.zeros((2 ** m, 2 ** n), dtype=complex)
    for x in range(2 ** n):
        bits = [(x >> (n - 1 - i)) & 1 for i in range(n)]
        idx = 0
        for i in range(n):
            idx |= bits[i] << (m - 1 - pi[i])
        A[:, x] = Uout[:, idx]
    for y in range(2 ** n):
        bits = [(y >> (n - 1 - i)) & 1 for i in range(n)]
        idx = 0
        for i in range(n):
            idx |= bits[i] << (m - 1 - pf[i])
        B[idx, :] = Uin[y, :]
    k = np.unravel_index(np.argmax(np.abs(B)), B.shape)
    if abs(A[k]) < 1e-9:
        return 'linear-map-differs'
    ph = A[k] / B[k]
    if abs(abs(ph) - 1) > 1e-7 or np.abs(A - ph * B).max() > 1e-7:
        return 'linear-map-differs'
    return None


def run_compile(n: int, ops: list, measure: list, m: int, edges: list, level: int, opts: dict,
                gate_set: Any = None, batch: Any = None) -> Any:
    """Runs the real bqskit.compile inside the E3 simulator (one worker, baseline schedule)."""
    from bqskit.compiler.compile import compile as bq_compile
    from bqskit.compiler.machine import MachineModel
    from bqskit.qis.graph import CouplingGraph
    from bqskit.runtime.task import RuntimeTask
    from vf.rtsim import Schedule, flat_world
    _install_stubs()
    del CONTRACT[:]
    del _FOREACH_CTX[:]
    RuntimeTask.task_counter = 0
    inp = build_circuit(n, ops, measure)
    others = [build_circuit(n2, ops2, []) for (n2, ops2) in (batch or [])]
    model = MachineModel(m, CouplingGraph(edges, m)) if gate_set is None else \
        MachineModel(m, CouplingGraph(edges, m), gate_set)
    w = flat_world(Schedule({}, {}), 1, 1, 'detached', 200000)

    def script(c: Any) -> Any:
        try:
            if batch is not None:
                # list input: one (circuit, initial mapping, final mapping) per input, in input order
                return ('ok', bq_compile([inp.copy()] + [o.copy() for o in others], model, optimization_level=level,
                                         compiler=c, with_mapping=True, seed=7, **opts), others)
            return ('ok', bq_compile(inp.copy(), model, optimization_level=level, compiler=c, with_mapping=True,
                                     seed=7, **opts))
        except Exception as e:  # noqa
            import traceback
            chain, x = [], e
            while x is not None and len(chain) < 4:
                chain.append(str(x)[-600:])
                x = x.__cause__
            return ('exc', type(e).__name__, ' <- '.join(chain), traceback.format_exc()[-400:])
    try:
        w.start([script])
        reason = w.run()
        res = getattr(w.clients[0], '_sim_result', None)
        errs = [(nm, repr(e)[:300]) for nm, e in w.thread_errors()]
    finally:
        w.finish()
    return inp, model, reason, res, errs


def connected(m: int, edges: list) -> bool:
    seen, todo = {0}, [0]
    while todo:
        x = todo.pop()
        for a, b in edges:
            for u, v in ((a, b), (b, a)):
                if u == x and v not in seen:
                    seen.add(v)
                    todo.append(v)
    return len(seen) == m


def wf(g0: int, a0: int, b0: int, c0: int, g1: int, a1: int, b1: int, c1: int, g2: int, a2: int, b2: int, c2: int,
       g3: int, a3: int, b3: int, c3: int, ms: int, e01: bool, e02: bool, e03: bool, e04: bool, e12: bool, e13: bool,
       e14: bool, e23: bool, e24: bool, e34: bool) -> bool:
    """
    post: _
    """
    rt.begin()
    S = rt.SHARD
    n, m, nops, level = S['n'], S['m'], S['nops'], S['level']
    kinds = S.get('gates', GATES)
    raw = [(g0, a0, b0, c0), (g1, a1, b1, c1), (g2, a2, b2, c2), (g3, a3, b3, c3)][:nops]
    ops = []
    for (g, a, b, c) in raw:
        gi = rt.P(g, 0, len(kinds) - 1)
        kind = kinds[gi]
        ar = {'cx': 2, 'cz': 2, 'u3': 1, 'h': 1, 'ccx': 3, 'barrier': 2}[kind]
        if ar > n:
            return True
        qa = rt.P(a, 0, n - 1)
        loc = [qa]
        if ar >= 2:
            qb = rt.P(b, 0, n - 2)
            qb = qb if qb < qa else qb + 1
            loc.append(qb)
        if ar == 3:
            rest = [q for q in range(n) if q not in loc]
            qc = rest[rt.P(c, 0, len(rest) - 1)]
            loc.append(qc)
        ops.append((kind, loc))
    # measurement subset (bitmask over logical qudits), only when the shard asks for it
    measure = []
    if S.get('measure', False):
        mask = rt.P(ms, 0, 2 ** n - 1)
        measure = [q for q in range(n) if (mask >> q) & 1]
    # coupling graph
    bits = {(0, 1): e01, (0, 2): e02, (0, 3): e03, (0, 4): e04, (1, 2): e12, (1, 3): e13, (1, 4): e14, (2, 3): e23,
            (2, 4): e24, (3, 4): e34}
    edges = []
    if 'fixed_edges' in S:
        edges = [tuple(e) for e in S['fixed_edges']]
    else:
        for (a, b), bit in bits.items():
            if b < m:
                if bit:
                    edges.append((a, b))
    if S.get('graphs') == 'sparse' and len(edges) > m:
        return True
    if not connected(m, edges):
        return True
    opts = dict(S.get('opts', {}))
    inp, model, reason, res, errs = rt.nt(run_compile, n, ops, measure, m, edges, level, opts)
    rt.reach()
    if rt.CONCRETE:
        rt.log('input', repr(inp), 'measure', measure)
        rt.log('model width', m, 'edges', edges, 'level', level, 'opts', opts)
        rt.log('sim', reason, 'errors', errs)
        rt.log('result', repr(res)[:1500])
    if reason != 'quiescent' or errs:
        return rt.fail('runtime-did-not-finish')
    if res is None or res[0] != 'ok':
        why = 'none'
        if res:
            lines = [ln.strip() for ln in str(res[2]).replace('\\n', '\n').split('\n') if 'Error' in ln and ':' in ln]
            why = (lines[-1] if lines else str(res[1]))[:90]
        return rt.fail('compile-raised:%s' % why)
    fp = rt.nt(judge, inp, model, res[1], measure)
    if fp is not None:
        return rt.fail(fp)
    return True


def _loc2(n: int, a: int, b: int) -> list:
    qa = rt.P(a, 0, n - 1)
    qb = rt.P(b, 0, n - 2)
    return [qa, qb if qb < qa else qb + 1]


def wfbatch(a0: int, b0: int, a1: int, b1: int, c0: int, d0: int, c1: int, d1: int, e0: int, f0: int, k: int) -> bool:
    """
    post: _
    """
    rt.begin()
    S = rt.SHARD
    n, m, level = S['n'], S['m'], S['level']
    edges = [tuple(e) for e in S['fixed_edges']]
    nin = S.get('inputs', 2)
    # input 0: a CNOT at a symbolic location, a U3, CNOT(0,1) (thorough: second CNOT symbolic too); input 1: a CNOT at a symbolic location, then CNOT(1,2);
    # an optional third input with one CNOT. `pin` (shard) fixes the first control so that shards stay small.
    pin = S.get('pin')
    la = _loc2(n, pin if pin is not None else a0, b0)
    opsA = [('cx', la), ('u3', [0]), ('cx', _loc2(n, a1, b1) if S.get('second_symbolic') else [0, 1])]
    opsB = [('cx', _loc2(n, c0, d0)), ('cx', [1, 2])]
    batch = [(n, opsB)]
    if nin >= 3:
        batch.append((n, [('cx', _loc2(n, e0, f0))]))
    inp, model, reason, res, errs = rt.nt(run_compile, n, opsA, [], m, edges, level, dict(S.get('opts', {})), None, batch)
    rt.reach()
    if rt.CONCRETE:
        rt.log('inputs', repr(inp), [b for b in batch], 'model width', m, 'edges', edges, 'level', level)
        rt.log('sim', reason, 'errors', errs)
        rt.log('result', repr(res)[:1500])
    if reason != 'quiescent' or errs:
        return rt.fail('runtime-did-not-finish')
    if res is None or res[0] != 'ok':
        return rt.fail('batch:compile-raised')
    outs, others = res[1], res[2]
    ins = [inp] + list(others)
    if not isinstance(outs, list) or len(outs) != len(ins):
        return rt.fail('batch:one-result-per-input')
    for i, (ci, out) in enumerate(zip(ins, outs)):
        fp = rt.nt(judge, ci, model, out, [])
        if fp is not None:
            if rt.CONCRETE:
                rt.log('entry', i, 'of the batch:', fp)
            return rt.fail('batch:entry-%s:%s' % ('last' if i == len(ins) - 1 else 'not-last', fp))
    return True


def obligations(tier: str) -> list[dict]:
    obs = []

    def ob(name: str, timeout: int, **sh: Any) -> None:
        obs.append({'name': name, 'func': 'wf', 'shard': sh, 'timeout': timeout})
    if tier == 'quick':
        ob('L1/n2m3/ops2', 280, n=2, m=3, nops=2, level=1, gates=['cx', 'u3'])
        ob('L2/n2m3/ops1', 280, n=2, m=3, nops=1, level=2, gates=['cx', 'cz'])
        ob('L1/n3m3/ops1/measure/line', 280, n=3, m=3, nops=1, level=1, gates=['cx'], measure=True,
           fixed_edges=[[0, 1], [1, 2]])
        ob('L2/n3m3/ops2/line', 280, n=3, m=3, nops=2, level=2, gates=['cx'], fixed_edges=[[0, 1], [1, 2]])
        ob('L1/n3m4/ops2/star', 280, n=3, m=4, nops=2, level=1, gates=['cx'], fixed_edges=[[0, 3], [1, 3], [2, 3]])
        ob('L1/n3m4/ccx/line', 280, n=3, m=4, nops=1, level=1, gates=['ccx'], fixed_edges=[[0, 1], [1, 2], [2, 3]])
        ob('L3/n2m3/ops2', 280, n=2, m=3, nops=2, level=3, gates=['cx', 'u3'])
        ob('L3/n3m3/ops2/line', 280, n=3, m=3, nops=2, level=3, gates=['cx'], fixed_edges=[[0, 1], [1, 2]])
        for pin in (0, 1, 2):
            obs.append({'name': 'batch/L1/n3m3/2-inputs/line/first-control-%d' % pin, 'func': 'wfbatch', 'timeout': 280,
                        'shard': {'n': 3, 'm': 3, 'level': 1, 'fixed_edges': [[0, 1], [1, 2]], 'inputs': 2, 'pin': pin}})
    else:
        for level in (1, 2):
            obs.append({'name': 'batch/L%d/n3m4/3-inputs/line' % level, 'func': 'wfbatch', 'timeout': 3000,
                        'shard': {'n': 3, 'm': 4, 'level': level, 'fixed_edges': [[0, 1], [1, 2], [2, 3]], 'inputs': 3,
                                  'second_symbolic': True}})
        obs.append({'name': 'batch/L1/n3m3/2-inputs/line', 'func': 'wfbatch', 'timeout': 3000,
                    'shard': {'n': 3, 'm': 3, 'level': 1, 'fixed_edges': [[0, 1], [1, 2]], 'inputs': 2}})
        for level in (1, 2, 3):
            ob('L%d/n2m3/ops3' % level, 3000, n=2, m=3, nops=3, level=level, gates=['cx', 'u3', 'cz', 'barrier'])
            ob('L%d/n3m3/ops3/measure' % level, 3000, n=3, m=3, nops=3, level=level, gates=['cx', 'u3', 'h'], measure=True)
            ob('L%d/n3m4/ops3' % level, 3000, n=3, m=4, nops=3, level=level, gates=['cx', 'cz', 'ccx'], graphs='sparse')
            ob('L%d/n4m4/ops3' % level, 3000, n=4, m=4, nops=3, level=level, gates=['cx', 'ccx'], graphs='sparse')
            ob('L%d/n3m5/ops2' % level, 3000, n=3, m=5, nops=2, level=level, gates=['cx', 'u3'], graphs='sparse')
            ob('L%d/n3m3/ops2/err' % level, 3000, n=3, m=3, nops=2, level=level, gates=['cx', 'u3', 'cz'],
               opts={'error_threshold': 1e-3, 'max_synthesis_size': 2})
        ob('L1/n3m4/ops4', 3000, n=3, m=4, nops=4, level=1, gates=['cx', 'u3'], graphs='sparse')
    return obs
