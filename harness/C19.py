"""C19 (partial) - instantiate(): candidate selection, structure/identity preservation, method selection.

Only the pure-Python half of the property is in reach of the solver: the multi-start driver
(`Instantiater.multi_start_instantiate*`, `Minimization.multi_start_instantiate*`), `Circuit.instantiate`
(method selection by capability, `return self`) and the thin `Minimization.instantiate` wrapper. The native
cost/gradient engines (bqskitrs, openqudit), the minimisers and QFactor's sweep are NOT encoded: they are
replaced by stubs whose outcomes are solver-chosen (candidate parameter vectors are tagged, their costs are
UNBOUNDED symbolic integers), so that "keeps the candidate of least cost" is decided for every cost
assignment and every number of starts within the bound.
"""
from __future__ import annotations

from typing import Any

from vf import rt

PROPERTY = 'C19'
LEVEL = 'model_checking'
RULE = ('one case = one path of the real multi-start / method-selection code for one (entry point, number of '
        'starts, ordering of the symbolic candidate costs) or one (circuit kind, method argument) combination; '
        'non-trivial = the entry point returned and the oracle was evaluated')
ENCODED = [
    'bqskit.ir.opt.instantiater:Instantiater.multi_start_instantiate/multi_start_instantiate_inplace/'
    'multi_start_instantiate_async/check_target',
    'bqskit.ir.opt.instantiaters.minimization:Minimization.multi_start_instantiate_inplace/'
    'multi_start_instantiate_async/instantiate/is_capable',
    'bqskit.ir.opt.instantiaters.qfactor:QFactor.is_capable/get_violation_report/get_method_name',
    'bqskit.ir.opt.multistartgens.random:RandomStartGenerator.gen_starting_points',
    'bqskit.ir.circuit:Circuit.instantiate/set_params/copy',
    'bqskit.ir.opt.cost.generator:CostFunctionGenerator.calc_cost',
]
ASSUMPTIONS = [
    'the single-start `instantiate` of an instantiater is a stub returning a tagged parameter vector per start '
    '(QFactor/minimiser numerics are native and outside the claim)',
    'the ranking cost function is a stub mapping a tagged vector to a symbolic integer cost (the native '
    'HilbertSchmidtCost is outside the claim); costs are integers, not floats (no NaN)',
    'get_runtime().map of the async variants is an in-order inline executor',
    'ties between candidates may be resolved either way',
]
BOUNDS = {
    'quick': '1..4 starts (method-selection: 5 circuit kinds x 9 method arguments x 1..2 starts), 6 entry points, '
             'costs unbounded integers',
    'thorough': '1..6 starts',
}
OUTSIDE = ('the value and gradient of the native Hilbert-Schmidt cost / residual functions, the minimisers, QFactor, '
           'floating-point costs (NaN ordering), user-defined gates evaluated through the native engine call-backs')

ENTRIES = ('base.inplace', 'base.copy', 'base.async', 'min.resid.inplace', 'min.cost.inplace', 'min.resid.async',
           'circuit.instantiate')


def _mk_circuit(kind: int) -> Any:
    from bqskit.ir.circuit import Circuit
    from bqskit.ir.gates import CNOTGate, U3Gate, VariableUnitaryGate, HGate, RZGate
    c = Circuit(2)
    if kind == 0:          # parameterised, minimisation only; 3 qubits: one cycle holds a parameterised gate on a
        #                    DESCENDING location together with a parameterised gate between its qudits, so that the
        #                    flat parameter order (iteration order) differs from the grid order of that cycle
        from bqskit.ir.gates import RZZGate
        c = Circuit(3)
        c.append_gate(RZZGate(), (2, 0), [0.05])
        c.append_gate(U3Gate(), 1, [0.1, 0.2, 0.3])
        c.append_gate(CNOTGate(), (0, 1))
        c.append_gate(RZGate(), 1, [0.4])
    elif kind == 1:        # QFactor only
        c.append_gate(VariableUnitaryGate(1), 0)
        c.append_gate(CNOTGate(), (0, 1))
        c.append_gate(VariableUnitaryGate(2), (1, 0))
    elif kind == 2:        # neither
        c.append_gate(VariableUnitaryGate(1), 0)
        c.append_gate(U3Gate(), 1, [0.1, 0.2, 0.3])
    elif kind == 3:        # both (constant gates only are locally optimisable? decided by the real is_capable)
        c.append_gate(HGate(), 0)
        c.append_gate(CNOTGate(), (0, 1))
    else:                  # parameterised gates inside a block
        from bqskit.ir.gates import CircuitGate
        b = Circuit(2)
        b.append_gate(U3Gate(), 0, [0.5, 0.6, 0.7])
        b.append_gate(CNOTGate(), (0, 1))
        c.append_gate(CircuitGate(b), (0, 1), b.params)
        c.append_gate(RZGate(), 0, [0.9])
    return c


def _structure(c: Any) -> list:
    return [(op.gate, tuple(op.location), cyc) for cyc, op in c.operations_with_cycles()]


class _Script:
    """Shared record of one run: candidates handed out, calls seen."""

    def __init__(self, costs: list) -> None:
        self.costs = costs
        self.calls: list = []
        self.rank_circuit: Any = None

    def candidate(self, k: int, n: int) -> Any:
        import numpy as np
        # distinct entries (exact binary fractions): a candidate stored in the wrong parameter ORDER is not a candidate
        return np.array([float(k + 1) + i / 16.0 for i in range(n)])

    def cost_of(self, x: Any) -> Any:
        return self.costs[int(float(x[0])) - 1]


def _argmin_body(entry: int, ns: int, c0: int, c1: int, c2: int, c3: int, c4: int, c5: int) -> bool:
    import numpy as np
    import bqskit.ir.opt.instantiater as I
    import bqskit.ir.opt.instantiaters.minimization as M
    import bqskit.runtime as R
    from bqskit.ir.opt.cost.function import CostFunction
    from bqskit.ir.opt.cost.generator import CostFunctionGenerator
    from bqskit.ir.opt.cost.residual import ResidualsFunction
    from bqskit.ir.opt.minimizer import Minimizer  # noqa
    from bqskit.qis.unitary.unitarymatrix import UnitaryMatrix
    rt.begin()
    hi = int(rt.SHARD.get('max_starts', 4))
    e = ENTRIES[rt.P(entry, 0, len(ENTRIES) - 1)] if 'entry' not in rt.SHARD else rt.SHARD['entry']
    n = rt.P(ns, 1, hi)
    costs = [c0, c1, c2, c3, c4, c5][:n]
    sc = _Script(costs)
    np.random.seed(7)
    circ = _mk_circuit(0)
    before = _structure(circ)
    params_before = [float(x) for x in circ.params]
    npar = circ.num_params
    target = UnitaryMatrix.identity(2 ** circ.num_qudits)

    class RankCost(CostFunction):
        def get_cost(self, params: Any) -> Any:
            return sc.cost_of(params)

        def __call__(self, params: Any) -> Any:
            return sc.cost_of(params)

    class RankGen(CostFunctionGenerator):
        def gen_cost(self, circuit: Any, tgt: Any) -> Any:
            sc.rank_circuit = circuit
            return RankCost()

    class Resid(ResidualsFunction):
        def get_cost(self, params: Any) -> Any:         # a residual function is NOT what candidates are ranked by
            raise AssertionError('candidates ranked by the residual function')

        def get_residuals(self, params: Any) -> Any:
            raise AssertionError('candidates ranked by the residual function')

        def num_residuals(self) -> int:
            return 1

    class ResidGen(CostFunctionGenerator):
        def gen_cost(self, circuit: Any, tgt: Any) -> Any:
            return Resid()

    class StubMin(Minimizer):
        def minimize(self, cost: Any, x0: Any) -> Any:
            sc.calls.append((None, len(x0), cost))
            return sc.candidate(len(sc.calls) - 1, npar)

    class StubInst(I.Instantiater):
        def instantiate(self, circuit: Any, tgt: Any, x0: Any) -> Any:
            sc.calls.append((circuit, len(x0), None))
            return sc.candidate(len(sc.calls) - 1, npar)

        @staticmethod
        def is_capable(circuit: Any) -> bool:
            return True

        @staticmethod
        def get_violation_report(circuit: Any) -> str:
            return ''

        @staticmethod
        def get_method_name() -> str:
            return 'stub'

    class FakeRuntime:
        async def map(self, fn: Any, *args: Any) -> list:
            return [fn(*a) for a in zip(*args)]

    def drive(coro: Any) -> Any:
        try:
            coro.send(None)
        except StopIteration as s:
            return s.value
        raise AssertionError('coroutine suspended on the inline runtime')

    saved = (I.HilbertSchmidtCostGenerator, M.HilbertSchmidtCostGenerator, R.get_runtime)
    I.HilbertSchmidtCostGenerator = RankGen
    M.HilbertSchmidtCostGenerator = RankGen
    R.get_runtime = lambda: FakeRuntime()
    out: Any = None
    try:
        try:
            if e == 'base.inplace':
                StubInst().multi_start_instantiate_inplace(circ, target, n)
                res = circ
            elif e == 'base.copy':
                res = StubInst().multi_start_instantiate(circ, target, n)
            elif e == 'base.async':
                res = drive(StubInst().multi_start_instantiate_async(circ, target, n))
            elif e == 'min.resid.inplace':
                M.Minimization(ResidGen(), StubMin()).multi_start_instantiate_inplace(circ, target, n)
                res = circ
            elif e == 'min.cost.inplace':
                M.Minimization(RankGen(), StubMin()).multi_start_instantiate_inplace(circ, target, n)
                res = circ
            elif e == 'min.resid.async':
                res = drive(M.Minimization(ResidGen(), StubMin()).multi_start_instantiate_async(circ, target, n))
            else:
                res = circ.instantiate(target, method=StubInst(), multistarts=n)
        except Exception as ex:
            rt.reach()
            if rt.CONCRETE:
                rt.log('entry', e, 'starts', n, 'raised', repr(ex))
            return rt.fail('argmin:%s:raises-%s' % (e, type(ex).__name__))
    finally:
        I.HilbertSchmidtCostGenerator, M.HilbertSchmidtCostGenerator, R.get_runtime = saved
    rt.reach()
    if rt.CONCRETE:
        rt.log('entry', e, 'starts', n, 'costs', [int(c) for c in costs], 'params after', list(res.params))
    # identity
    if e == 'base.copy':
        if res is circ:
            return rt.fail('argmin:%s:copy-variant-returned-the-input-object' % e)
        if [float(x) for x in circ.params] != params_before or _structure(circ) != before:
            return rt.fail('argmin:%s:input-circuit-modified' % e)
    elif res is not circ:
        return rt.fail('argmin:%s:not-the-same-circuit-object' % e)
    # structure
    if _structure(res) != before:
        return rt.fail('argmin:%s:structure-changed' % e)
    # one single-start instantiation per requested start, each from a full-length start vector
    if len(sc.calls) != n:
        return rt.fail('argmin:%s:number-of-starts' % e)
    for (_c, ln, _k) in sc.calls:
        if ln != npar:
            return rt.fail('argmin:%s:start-vector-length' % e)
    # the kept candidate is one of the candidates and none is cheaper
    p = [float(x) for x in res.params]
    if len(p) != npar or not (1 <= int(p[0]) <= n) or p != [float(x) for x in sc.candidate(int(p[0]) - 1, npar)]:
        return rt.fail('argmin:%s:parameters-are-not-a-candidate' % e)
    flat: list = []
    for op in res:
        flat.extend(float(x) for x in op.params)
    if flat != p:
        return rt.fail('argmin:%s:stored-parameters-disagree-with-params' % e)
    kept = costs[int(p[0]) - 1]
    for c in costs:
        if c < kept:
            return rt.fail('argmin:%s:kept-candidate-is-not-of-least-cost' % e)
    return True


def argmin(entry: int, ns: int, c0: int, c1: int, c2: int, c3: int, c4: int, c5: int) -> bool:
    """
    post: _
    """
    return _argmin_body(entry, ns, c0, c1, c2, c3, c4, c5)


METHODS = ('none', 'name:minimization', 'name:qfactor', 'name:QFactor', 'name:MINIMIZATION', 'name:nosuch',
           'inst:minimization', 'inst:qfactor', 'bad-type')


@rt.natively
def _select_body(kind: int, meth: int, ns: int) -> bool:
    import bqskit.ir.opt.instantiater as I
    import bqskit.ir.opt.instantiaters.minimization as M
    from bqskit.ir.opt.instantiaters import Minimization, QFactor
    from bqskit.qis.unitary.unitarymatrix import UnitaryMatrix
    rt.begin()
    k = rt.P(kind, 0, 4)
    m = METHODS[rt.P(meth, 0, len(METHODS) - 1)]
    n = rt.P(ns, 1, 2)

    def run() -> 'str | None':
        circ = _mk_circuit(k)
        before = _structure(circ)
        used: list = []

        def rec_base(self: Any, circuit: Any, tgt: Any, num: int) -> None:
            used.append((type(self), circuit, num))

        saved = (I.Instantiater.multi_start_instantiate_inplace, M.Minimization.multi_start_instantiate_inplace)
        I.Instantiater.multi_start_instantiate_inplace = rec_base
        M.Minimization.multi_start_instantiate_inplace = rec_base
        cap = {Minimization: Minimization.is_capable(circ), QFactor: QFactor.is_capable(circ)}
        # independent reading of the capability rules in the documentation of the two instantiaters
        from bqskit.ir.gates import VariableUnitaryGate
        from bqskit.qis.unitary import LocallyOptimizableUnitary
        ref = {Minimization: not any(isinstance(g, VariableUnitaryGate) for g in circ.gate_set),
               QFactor: all(isinstance(g, LocallyOptimizableUnitary) for g in circ.gate_set)}
        err: Any = None
        res: Any = None
        try:
            try:
                if m == 'none':
                    res = circ.instantiate(UnitaryMatrix.identity(2 ** circ.num_qudits), multistarts=n)
                elif m.startswith('name:'):
                    res = circ.instantiate(UnitaryMatrix.identity(2 ** circ.num_qudits), method=m[5:], multistarts=n)
                elif m == 'inst:minimization':
                    res = circ.instantiate(UnitaryMatrix.identity(2 ** circ.num_qudits), method=Minimization(), multistarts=n)
                elif m == 'inst:qfactor':
                    res = circ.instantiate(UnitaryMatrix.identity(2 ** circ.num_qudits), method=QFactor(), multistarts=n)
                else:
                    res = circ.instantiate(UnitaryMatrix.identity(2 ** circ.num_qudits), method=3.5, multistarts=n)   # type: ignore
            except Exception as ex:
                err = ex
        finally:
            I.Instantiater.multi_start_instantiate_inplace, M.Minimization.multi_start_instantiate_inplace = saved
        if rt.CONCRETE:
            rt.log('circuit kind', k, 'method', m, 'capable', {c.__name__: v for c, v in cap.items()}, 'used',
                   [u[0].__name__ for u in used], 'error', repr(err))
        if cap != ref:
            return 'select:is_capable-differs-from-documented-rule'
        want: Any
        if m == 'none':
            want = 'any-capable'
        elif m == 'bad-type':
            want = TypeError
        elif m == 'name:nosuch':
            want = ValueError
        else:
            cls = Minimization if 'minim' in m.lower() else QFactor
            want = cls if ref[cls] else ValueError
        if want == 'any-capable':
            if not any(ref.values()):
                return None if isinstance(err, ValueError) else 'select:no-capable-method-but-no-ValueError'
            if err is not None:
                return 'select:capable-method-exists-but-raised-%s' % type(err).__name__
            if len(used) != 1 or not ref.get(used[0][0], False):
                return 'select:chose-an-incapable-method'
        elif isinstance(want, type) and issubclass(want, Exception):
            if not isinstance(err, want):
                return 'select:%s:expected-%s' % (m, want.__name__)
            if used:
                return 'select:%s:instantiated-despite-error' % m
            return None
        else:
            if err is not None:
                return 'select:%s:raised-%s' % (m, type(err).__name__)
            if len(used) != 1 or used[0][0] is not want:
                return 'select:%s:wrong-method-used' % m
        if res is not circ or used[0][1] is not circ:
            return 'select:%s:not-the-same-circuit-object' % m
        if used[0][2] != n:
            return 'select:%s:multistarts-not-passed-on' % m
        if _structure(circ) != before:
            return 'select:%s:structure-changed' % m
        return None
    fp = rt.nt(run)
    rt.reach()
    return True if fp is None else rt.fail(fp)


def select(kind: int, meth: int, ns: int) -> bool:
    """
    post: _
    """
    return _select_body(kind, meth, ns)


def obligations(tier: str) -> list[dict]:
    obs = [{'name': 'select/circuit-kinds-x-method-arguments', 'func': 'select', 'shard': {}, 'timeout': 240}]
    hi = 4 if tier == 'quick' else 6
    for e in ENTRIES:
        obs.append({'name': 'argmin/%s/starts1-%d/costs-unbounded' % (e, hi), 'func': 'argmin',
                    'shard': {'entry': e, 'max_starts': hi}, 'timeout': 300 if tier == 'quick' else 1800})
    return obs
