"""C05 - all views of a Circuit stay mutually consistent after every edit."""
from __future__ import annotations

from harness.circ_common import KINDS, entry_name

PROPERTY = 'C05'
LEVEL = 'model_checking'
ORACLE = 'views'
ENCODED = [
    'bqskit.ir.circuit:Circuit.{append,append_gate,append_circuit,extend,insert,insert_gate,insert_circuit,'
    'pop,batch_pop,remove,remove_all,replace,replace_gate,replace_with_circuit,batch_replace,pop_cycle,'
    'insert_qudit,append_qudit,pop_qudit,renumber_qudits,straighten,fold,unfold,batch_unfold,unfold_all,'
    'compress,copy,become,clear,get_inverse,__add__,__mul__,__iadd__,__imul__,_append,_insert_cycle,'
    'check_region,get_region,downsize_region,next,prev,front,rear,first_on,last_on,gate_counts,count,'
    'coupling_graph,active_qudits,depth,num_operations,num_params,__getitem__,is_point_idle}',
    'bqskit.ir.iterator:CircuitIterator', 'bqskit.ir.region:CircuitRegion', 'bqskit.ir.interval:CycleInterval',
    'bqskit.ir.location:CircuitLocation', 'bqskit.ir.point:CircuitPoint', 'bqskit.ir.operation:Operation',
    'bqskit.ir.gates.circuitgate:CircuitGate', 'bqskit.qis.graph:CouplingGraph.__init__',
]
ASSUMPTIONS = [
    'gates are harness-tagged gates (arity 1-3, qubits) without numerics; identity = tag',
    'pre-states are produced by the public API (insert_gate/insert_circuit/pop) from symbolic integers, so every '
    'counterexample is a real history',
    'argument spaces per call kind are the ones decoded in harness/circ_common.py:do_call (cycle indices from '
    '-n-1 to n+1, qudit indices in and out of range, all ordered locations, regions with per-qudit bounds)',
]
BOUNDS = {
    'quick': 'W<=3 qudits; pre-state = 2 symbolic inserts (+optional pop) then 1 call of each of the %d kinds; '
             '2-call histories for the state-changing kinds on W=2..3 with a 1-op pre-state' % len(KINDS),
    'thorough': 'W<=3; pre-state = 2 symbolic inserts incl. CircuitGate blocks (+optional pop) then 1 call of each kind on '
                'W=2 and W=3; 3-op pre-states with blocks for the fold/unfold family; 40 two-call histories (8 state-changing '
                'first calls x 5 second calls) on 2-op pre-states; every obligation capped at 300 s',
}
OUTSIDE = 'W>3; radix other than 2 in this family (mixed radix is exercised by C06/C16); histories longer than '
OUTSIDE += 'pre-state + 2 calls; numerics (get_unitary) - covered by C06'

FIRST = ['renumber', 'insert_qudit', 'pop_qudit', 'fold', 'straighten', 'replace_gate', 'pop_cycle',
         'batch_replace', 'replace_with_circuit', 'insert_circuit', 'imul', 'compress', 'unfold', 'batch_pop']
SECOND = ['pop', 'insert_gate', 'append_gate', 'replace_gate', 'fold', 'unfold', 'renumber', 'pop_qudit',
          'insert_qudit', 'straighten', 'batch_pop', 'pop_cycle', 'copy', 'compress']


def obligations(tier: str, oracle: str = ORACLE) -> list[dict]:
    obs = []

    def ob(kinds: list, W: int, npre: int, timeout: int, codes: list | None = None, prepop: bool = True,
           pin: dict | None = None, narrow: bool = False, tag: str = '', **extra: object) -> None:
        sh = {'W': W, 'npre': npre, 'kinds': kinds, 'oracle': oracle, 'prepop': prepop}
        sh.update(extra)
        if narrow:
            sh['narrow'] = True
        if pin:
            sh['pin'] = pin
        if codes is not None:
            sh['codes'] = codes
        obs.append({'name': '%s/W%d/pre%d%s%s' % ('+'.join(kinds), W, npre,
                                                   '' if codes is None else '/codes' + ''.join(map(str, codes)),
                                                   ('' if prepop else '/nopop') +
                                                   ('' if not pin else '/pin' + '.'.join('%s=%s' % kv for kv in sorted(pin.items()))) +
                                                   ('/narrow' if narrow else '') + tag),
                    'shard': sh, 'timeout': timeout})

    NOBLK = [1, 2, 3]   # get_inverse of a CircuitGate needs numerics (DaggerGate): tagged gates have none
    BIGARGS = ('batch_replace', 'batch_pop', 'replace_gate', 'insert_circuit', 'append_circuit', 'insert_gate',
               'append_gate', 'fold', 'straighten', 'fold_unfold', 'replace_with_circuit', 'renumber')
    if tier == 'quick':
        for k in KINDS:
            if k == 'replace_perm':
                continue
            big = k in BIGARGS
            ob([k], 3, 1, 200, NOBLK if (k == 'inverse' or big) else None, not big, None, big and k != 'insert_gate')
        for k in ['pop', 'replace_gate', 'fold']:
            ob([k], 2, 2, 200, [1, 2], True, None, True)
        for k in ['unfold', 'batch_unfold', 'unfold_all']:
            ob([k], 2, 3, 200, [1, 5], False, None, True)
        for k1, k2 in (('renumber', 'pop'), ('pop_qudit', 'insert_gate')):
            ob([k1, k2], 3, 1, 200, [2], False, None, True)
        ob(['insert_qudit', 'replace_gate'], 2, 1, 200, [2], False, None, True)
        # a batch of two replacements needs two operations in the pre-state (points in either order, replacements that
        # change the number of cycles)
        ob(['batch_replace'], 2, 2, 300, [1, 2], False, None, True, '/widen', br_modes=[0, 2, 3])
        ob(['batch_replace'], 2, 3, 300, [1], False, None, True, '/widen', br_modes=[0, 3])
        ob(['batch_pop'], 2, 2, 300, [1, 2], False, None, True)
        # a replace that re-keys the dependency node, then a removal that deletes a cycle (3-op pre-states)
        for q in (0, 1):      # pre-state pattern 1-qudit, 2-qudit, 1-qudit op (symbolic locations and cycles)
            ob(['replace_perm', 'pop'], 2, 3, 240, [1, 2], False, {'0': 0, '1': q, '5': 1, '10': 0}, True)
    else:
        T = 300      # per-obligation cap: thorough = 112 obligations x <=300 s on 16 cores (~35 min); obligations that do
        #              not exhaust inside the cap are reported as inconclusive, never as success
        for k in KINDS:
            ob([k], 2, 2, T, [1, 2] if k == 'inverse' else [1, 2, 5])
            ob([k], 3, 2, T, NOBLK, False)
        for k in ['unfold', 'batch_unfold', 'unfold_all', 'fold', 'fold_unfold', 'straighten']:
            ob([k], 3, 3, T, [1, 2, 5, 6], False, {'0': 0})
        for k1 in ['renumber', 'insert_qudit', 'pop_qudit', 'fold', 'replace_gate', 'batch_replace', 'insert_circuit',
                   'replace_with_circuit']:
            for k2 in ['pop', 'insert_gate', 'replace_gate', 'fold', 'pop_cycle']:
                ob([k1, k2], 2, 2, T, [1, 2], False)
    for o in obs:
        o['func'] = entry_name(o['shard']['npre'], o['shard']['kinds'])
    return obs


# chworker imports the function from this module
from harness.circ_entry import *  # noqa: E402,F401,F403
