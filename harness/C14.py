"""C14 - a crashed worker or manager unblocks every waiting client with an error (bounded)."""
from __future__ import annotations

from harness import C07 as _c07
from harness.rt_entry import obs_sharded, ob, sim  # noqa: F401

PROPERTY = 'C14'
LEVEL = 'model_checking'
RULE = ('one case = one schedule (baseline + <=1 delay) with one or two crash events (step index x node) of one '
        'scenario on the real node objects; non-trivial = the oracle was evaluated at quiescence')
ENCODED = _c07.ENCODED + [
    'bqskit.runtime.base:ServerBase.run (EOF branch)/handle_disconnect/handle_shutdown, RuntimeEmployee.'
    'initiate_shutdown/complete_shutdown', 'bqskit.runtime.manager:Manager.handle_shutdown/handle_system_error',
    'bqskit.runtime.detached:DetachedServer.handle_shutdown/handle_disconnect',
    'bqskit.runtime.attached:AttachedServer.handle_disconnect',
    'bqskit.runtime.worker:Worker.recv_incoming (lost-connection branch)',
    'bqskit.compiler.compiler:Compiler._send/_send_recv/_recv_handle_log_error/close',
]
ASSUMPTIONS = _c07.ASSUMPTIONS + [
    'crash = the node takes no further step and every connection end it owns is closed (peers read EOF; sends to it '
    'raise ConnectionResetError); partial writes and half-open sockets are outside',
]
BOUNDS = {
    'quick': 'flat2 (detached and attached), flat3, mgr2x1, mgr1x2; trees map2, nested, next3, map2_slow (leaves with yield points inside one step); one crash of any worker/'
             'manager at ANY step of the run (crash step symbolic over the whole horizon) on the baseline schedule, and '
             'with <=1 delay on flat2/map2',
    'thorough': 'adds trees nested/next3, flat3, mgr1x2, a second crash, 2 delays',
}
OUTSIDE = 'partial writes, half-open TCP, OS-level kill timing, the 1 s sleeps, more than two crashes'


def obligations(tier: str) -> list[dict]:
    obs = []
    if tier == 'quick':
        obs.append(ob('flat2/map2/crash1/K0', 'flat2', ['map2'], 'crash', 0, 200, crashes=1, crash_nodes=['w0', 'w1']))
        obs.append(ob('flat2-attached/map2/crash1/K0', 'flat2', ['map2'], 'crash', 0, 200, crashes=1,
                      crash_nodes=['w0', 'w1'], kind='attached'))
        obs.append(ob('mgr2x1/map2/crash1/K0', 'mgr2x1', ['map2'], 'crash', 0, 200, crashes=1,
                      crash_nodes=['m0', 'm1', 'w0', 'w536870912']))
        obs.append(ob('flat2/nested/crash1/K0', 'flat2', ['nested'], 'crash', 0, 200, crashes=1, crash_nodes=['w0', 'w1']))
        obs.append(ob('flat2/next3/crash1/K0', 'flat2', ['next3'], 'crash', 0, 200, crashes=1, crash_nodes=['w0', 'w1']))
        obs.append(ob('flat2-attached/nested/crash1/K0', 'flat2', ['nested'], 'crash', 0, 200, crashes=1,
                      crash_nodes=['w0', 'w1'], kind='attached'))
        obs.append(ob('flat3/map2/crash1/K0', 'flat3', ['map2'], 'crash', 0, 200, crashes=1, crash_nodes=['w0', 'w1', 'w2']))
        obs.append(ob('mgr2x1/nested/crash1/K0', 'mgr2x1', ['nested'], 'crash', 0, 200, crashes=1,
                      crash_nodes=['m0', 'm1', 'w0', 'w536870912']))
        obs.append(ob('mgr1x2/map2/crash1/K0', 'mgr1x2', ['map2'], 'crash', 0, 200, crashes=1, crash_nodes=['m0', 'w0', 'w1']))
        # a worker is in the middle of a long synchronous step when another node dies (its task code must not go on)
        obs.append(ob('flat2/map2_slow/crash1/K0', 'flat2', ['map2_slow'], 'crash', 0, 200, crashes=1, crash_nodes=['w0', 'w1']))
        obs.append(ob('flat2-attached/map2_slow/crash1/K0', 'flat2', ['map2_slow'], 'crash', 0, 200, crashes=1,
                      crash_nodes=['w0', 'w1'], kind='attached'))
        obs.append(ob('mgr2x1/map2_slow/crash1/K0', 'mgr2x1', ['map2_slow'], 'crash', 0, 200, crashes=1,
                      crash_nodes=['m0', 'm1', 'w0', 'w536870912']))
        obs.extend(obs_sharded(10, 'flat2/map2_slow/crash1/K1', 'flat2', ['map2_slow'], 'crash', 1, 300, crashes=1,
                               crash_nodes=['w0', 'w1'], maxrank=1))
        obs.extend(obs_sharded(6, 'flat2/map2/crash1/K1', 'flat2', ['map2'], 'crash', 1, 300, crashes=1,
                               crash_nodes=['w0', 'w1'], maxrank=1))
    else:
        for topo, nodes in (('flat2', ['w0', 'w1']), ('flat3', ['w0', 'w1', 'w2']),
                            ('mgr2x1', ['m0', 'm1', 'w0', 'w536870912']), ('mgr1x2', ['m0', 'w0', 'w1'])):
            for sh in ('map2', 'nested', 'next3', 'map2_slow'):
                for kind in (('detached', 'attached') if topo.startswith('flat') else ('detached',)):
                    obs.append(ob('%s-%s/%s/crash1/K1' % (topo, kind, sh), topo, [sh], 'crash', 1, 600, crashes=1,
                                  crash_nodes=nodes, kind=kind, maxrank=1))
            obs.append(ob('%s/map2/crash2/K0' % topo, topo, ['map2'], 'crash', 0, 600, crashes=2, crash_nodes=nodes))
    return obs
