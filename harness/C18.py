"""C18 - every library gate obeys the gate contract, for ALL real parameter vectors (E2).

Each obligation takes one gate construction from the catalogue, runs the repository's own
Python definitions (hand-written get_unitary / get_grad / get_inverse(_params), composed-gate
algebra, and the QGL text handed to openqudit) on exact symbolic parameters, and lets z3
decide the resulting matrix identities in QF_NRA (unsat = holds for every real parameter
vector within 1e-9; sat = concrete parameter vector, replayed through the unmodified numeric
code).
"""
from __future__ import annotations

import importlib
import sys
import time
from typing import Any

PROPERTY = 'C18'
LEVEL = 'model_checking'
RULE = ('one case = one matrix identity of one gate construction (O1 unitarity, O2 hand-written = QGL text, '
        'O3 grad = d/dtheta, O4 inverse, O5 composed = algebraic composition, O7 reference table), decided by z3 '
        'over all real parameters; non-trivial = the identity had at least one parameter or a non-identity matrix')
ENCODED = [
    'bqskit.ir.gates.parameterized.*:get_unitary/get_grad (hand-written Python) and the QGL text passed to '
    'openqudit.UnitaryExpression', 'bqskit.ir.gates.constant.*: QGL text', 'bqskit.ir.gates.composed.controlled:'
    'ControlledGate.__init__/get_unitary/get_grad/build_control_proj', 'composed.daggergate:DaggerGate',
    'composed.powergate:PowerGate', 'composed.frozenparam:FrozenParameterGate', 'composed.tagged:TaggedGate',
    'composed.embedded:EmbeddedGate', 'bqskit.ir.gate:Gate.get_inverse/get_inverse_params',
    'bqskit.qis.unitary.unitarymatrix:UnitaryMatrix.dagger/ipower/otimes/conj/T',
]
ASSUMPTIONS = [
    'UnitaryMatrix.__init__ stubbed to keep exact object arrays (numeric unitarity test skipped; unitarity is an '
    'obligation instead)',
    'module-level np of the gate modules replaced by a proxy that keeps dtype=object on complex128 casts',
    'openqudit.UnitaryExpression wrapped to record the QGL text; the native evaluator itself is not analysed, the '
    'QGL reader (vf/qgl.py) is validated against it numerically at 16 random points per gate on every run '
    '(mismatch => inconclusive)',
    'doubles in hand-written code equal to a closed-form constant within 2 ulp (k*pi/m, k*sqrt(n)/m, small '
    'rationals) are read as that constant, other doubles at face value; eps = 1e-9 absorbs the rest',
    'sympy performs exp(i x) -> cos + i sin, angle-addition expansion, differentiation and reduction modulo '
    'c^2+s^2=1 (sound rewriting under the asserted constraints); z3 decides the residual QF_NRA query',
]
BOUNDS = {
    'quick': 'gates of dimension <= 8 with closed-form source; composed gates over RX/RY/U3/CRX with 1-2 controls, '
             'radix 2-3, powers -2..3, every frozen subset of U3, embeddings into uniform and NON-uniform target radixes '
             '([2,3], [3,4], [3,2], [4,3], [2,3,4]); all real parameter vectors (unbounded)',
    'thorough': 'same catalogue + cvc5 cross-check of every non-trivial query, wider constructor spaces '
                '(control levels on qutrits, embedded level maps, MPRY/MPRZ/Diagonal up to 3 qubits)',
}
OUTSIDE = ('PauliGate (scipy expm), VariableUnitaryGate (SVD), ConstantUnitaryGate of arbitrary data, calc_params/'
           'optimize, native openqudit evaluation/gradients of expression-backed gates, floating-point rounding')


def _setup() -> Any:
    from vf import sym
    sym.record_qgl()
    import bqskit.ir.gates  # noqa
    return sym


def catalogue(tier: str) -> list[dict]:
    """Gate constructions as data: {'id', 'mk': python expression evaluated in bqskit.ir.gates namespace}."""
    P = ['U2Gate()', 'U3Gate()', 'U8Gate()', 'CRXGate()', 'CRYGate()', 'CRZGate()', 'CPGate()', 'CCPGate()', 'CUGate()',
         'FSIMGate()', 'PhasedXZGate()', 'U1qGate()', 'ArbitraryCPhaseGate([2, 2])', 'ArbitraryCPhaseGate([3, 3])',
         'ArbitraryCPhaseGate([2, 3])', 'ArbitraryCPhaseGate([4])',
         'DiagonalGate(1)', 'DiagonalGate(2)', 'MPRYGate(2)', 'MPRZGate(2)', 'MPRYGate(2, 0)', 'MPRZGate(2, 0)',
         'CKMGate()', 'CKMdgGate()', 'RSU3Gate(0)', 'RSU3Gate(3)', 'RSU3Gate(7)', 'PauliZGate(1)', 'PauliZGate(2)']
    C = ['ECRGate()', 'SqrtCNOTGate()', 'SqrtISwapGate()', 'ISwapGate()', 'SycamoreGate()', 'XXGate()',
         'YYGate()', 'ZZGate()', 'BGate()', 'SqrtTGate()', 'CPIGate()', 'CSUMGate()', 'CSUMGate(3)',
         'PDGate(0, 3)', 'PDGate(1, 3)', 'SubSwapGate(3, "0,1;1,0")', 'RCCXGate()', 'RC3XGate()', 'IToffoliGate()',
         'PermutationGate(2, (1, 0))', 'PermutationGate(3, (2, 0, 1))']
    K = ['XGate()', 'YGate()', 'ZGate()', 'HGate()', 'SGate()', 'SdgGate()', 'TGate()', 'TdgGate()', 'SXGate()',
         'SXdgGate()', 'CXGate()', 'CYGate()', 'CZGate()', 'CHGate()', 'CSGate()', 'CTGate()', 'SwapGate()',
         'CCXGate()', 'IdentityGate(1)', 'IdentityGate(2)', 'HGate(3)', 'ShiftGate(3)',
         'ClockGate(3)', 'SwapGate(3)']
    X = ['ControlledGate(RXGate())', 'ControlledGate(U3Gate())', 'ControlledGate(RYGate(), 2)',
         'ControlledGate(RZGate(), 1, [3], [[1, 2]])', 'ControlledGate(RXGate(), 1, [2], [0])',
         'ControlledGate(CRXGate())', 'DaggerGate(U3Gate())', 'DaggerGate(CRYGate())', 'DaggerGate(FSIMGate())',
         'PowerGate(RXGate(), 2)', 'PowerGate(U3Gate(), 3)', 'PowerGate(RZZGate(), -2)', 'PowerGate(U2Gate(), -1)',
         'PowerGate(RYGate(), 0)',
         'FrozenParameterGate(U3Gate(), {0: 0.5})', 'FrozenParameterGate(U3Gate(), {1: 1.25})',
         'FrozenParameterGate(U3Gate(), {0: 0.5, 2: -0.75})', 'FrozenParameterGate(U3Gate(), {0: 1, 1: 2, 2: 3})',
         'FrozenParameterGate(CUGate(), {3: 0.25})', 'TaggedGate(U3Gate(), "x")',
         # dict insertion order is part of the constructor space (descending / mixed key orders)
         'FrozenParameterGate(U3Gate(), {1: 1.25, 0: 0.5})', 'FrozenParameterGate(U3Gate(), {2: -0.75, 0: 0.5})',
         'FrozenParameterGate(U3Gate(), {2: -0.75, 1: 1.25})', 'FrozenParameterGate(CUGate(), {3: 0.25, 1: 0.5})',
         'FrozenParameterGate(CUGate(), {2: 0.25, 0: 0.5, 1: 0.75})',
         'EmbeddedGate(RXGate(), 3, [0, 1])', 'EmbeddedGate(RYGate(), 3, [0, 2])',
         'EmbeddedGate(U3Gate(), 4, [1, 3])', 'EmbeddedGate(CRXGate(), [3, 3], [[0, 1], [0, 2]])',
         # multi-qudit embeddings into NON-UNIFORM target radixes (index flattening is radix-order sensitive)
         'EmbeddedGate(CNOTGate(), [2, 3], [[0, 1], [0, 2]])', 'EmbeddedGate(CRXGate(), [3, 4], [[0, 2], [1, 3]])',
         'EmbeddedGate(CZGate(), [3, 2], [[1, 2], [0, 1]])', 'EmbeddedGate(RZZGate(), [4, 3], [[3, 0], [2, 1]])',
         'EmbeddedGate(CCXGate(), [2, 3, 4], [[0, 1], [1, 2], [0, 3]])',
         'DaggerGate(ControlledGate(RXGate()))', 'ControlledGate(DaggerGate(RYGate()))',
         'PowerGate(DaggerGate(RZGate()), 2)']
    if tier == 'thorough':
        P += ['DiagonalGate(3)', 'MPRYGate(3)', 'MPRZGate(3)', 'MPRYGate(3, 1)', 'ArbitraryCPhaseGate([2, 2, 2])',
              'PauliZGate(3)']
        X += ['ControlledGate(U3Gate(), 2)', 'ControlledGate(RXGate(), 1, [3], [2])',
              'ControlledGate(RXGate(), 2, [3, 2], [[0, 2], [1]])', 'ControlledGate(CUGate())',
              'PowerGate(CUGate(), 2)', 'PowerGate(FSIMGate(), -3)', 'FrozenParameterGate(U8Gate(), {0: 0.5, 7: 1})',
              'EmbeddedGate(U3Gate(), 5, [0, 4])', 'DaggerGate(PowerGate(U3Gate(), 2))',
              'ControlledGate(FrozenParameterGate(U3Gate(), {1: 0.5}))',
              'FrozenParameterGate(ControlledGate(U3Gate()), {2: 0.5})',
              'FrozenParameterGate(U3Gate(), {2: 3, 1: 2, 0: 1})', 'FrozenParameterGate(U8Gate(), {7: 1, 0: 0.5, 3: 0.25})',
              'FrozenParameterGate(CUGate(), {3: 0.25, 2: 0.5, 0: 1.5})']
    out = []
    for kind, lst in (('param', P), ('const', C), ('named', K), ('composed', X)):
        for mk in lst:
            out.append({'id': mk, 'mk': mk, 'kind': kind})
    return out


def obligations(tier: str) -> list[dict]:
    obs = []
    for g in catalogue(tier):
        obs.append({'name': g['id'].replace(' ', ''), 'func': 'check_gate', 'kind': 'direct',
                    'shard': {'mk': g['mk'], 'gkind': g['kind'], 'cvc5': tier == 'thorough'},
                    'timeout': 240 if tier == 'quick' else 900})
    obs.append({'name': 'eq-hash-consistency', 'func': 'check_eq_hash', 'kind': 'direct', 'shard': {},
                'timeout': 240})
    return obs


def _make(mk: str) -> Any:
    import bqskit.ir.gates as G
    ns = dict(vars(G))
    return eval(mk, ns)


def _gate_modules(g: Any) -> list:
    mods = []
    seen = set()
    stack = [g]
    while stack:
        x = stack.pop()
        for cls in type(x).__mro__:
            m = sys.modules.get(cls.__module__)
            if m is not None and m.__name__.startswith('bqskit') and m.__name__ not in seen:
                seen.add(m.__name__)
                mods.append(m)
        inner = getattr(x, 'gate', None)
        if inner is not None and inner is not x:
            stack.append(inner)
    for name in ('bqskit.qis.unitary.unitarymatrix', 'bqskit.ir.gates.composed.controlled'):
        m = importlib.import_module(name)
        if m.__name__ not in seen:
            mods.append(m)
    return mods


class native_model:
    """While active, Gate.get_unitary / Gate.get_grad (the expression-backed defaults) answer
    symbolic parameter vectors from the QGL text recorded for the instance, or - for built-ins
    of openqudit that have no text in /repo (RX, RY, RZ, RXX, RYY, RZZ, U1, constants) - from the
    closed-form model in builtin_matrix(); both are validated numerically against the native
    evaluator before use (a mismatch raises and the obligation becomes inconclusive)."""

    def __enter__(self) -> 'native_model':
        import numpy as np
        import sympy as sp
        from bqskit.ir.gate import Gate
        from bqskit.qis.unitary.unitarymatrix import UnitaryMatrix
        from vf import qgl, sym
        self.Gate = Gate
        self.ou, self.og = Gate.get_unitary, Gate.get_grad
        ou, og = self.ou, self.og

        def model(gate: Any, params: list) -> Any:
            n = gate.num_params
            isyms = [sp.Symbol('w%d' % i, real=True) for i in range(n)]
            txt = sym.qgl_text_of(getattr(gate, '_expr', None))
            if txt is not None:
                M = qgl.parse(txt, isyms)[3]
            else:
                M = builtin_matrix(type(gate).__name__, isyms, gate)
                if M is None:
                    raise ValueError('no model for native built-in %r' % gate)
            rng = np.random.default_rng(7)
            for _ in range(8):
                p = list(rng.uniform(-4, 4, n))
                nat = np.array(gate._expr(*p), dtype=complex)
                md = np.array(M.subs(dict(zip(isyms, p))).evalf(30), dtype=complex)
                if not np.allclose(nat, md, atol=1e-9):
                    raise ValueError('model of %r disagrees with the native evaluator' % gate)
            return M, isyms

        def get_unitary(gate: Any, params: Any = []) -> Any:
            if not sym.has_sym(list(params)):
                return ou(gate, params)
            M, isyms = model(gate, list(params))
            M = M.subs(dict(zip(isyms, [sym.Sym(x).e for x in params])))
            arr = np.empty((M.rows, M.cols), dtype=object)
            for i in range(M.rows):
                for j in range(M.cols):
                    arr[i, j] = sym.Sym(M[i, j])
            return UnitaryMatrix(arr, gate.radixes)

        def get_grad(gate: Any, params: Any = []) -> Any:
            if not sym.has_sym(list(params)):
                return og(gate, params)
            M, isyms = model(gate, list(params))
            out = np.empty((len(isyms), M.rows, M.cols), dtype=object)
            sub = dict(zip(isyms, [sym.Sym(x).e for x in params]))
            for k, s_ in enumerate(isyms):
                D = sp.diff(M, s_).subs(sub)
                for i in range(M.rows):
                    for j in range(M.cols):
                        out[k, i, j] = sym.Sym(D[i, j])
            return out.view(sym.SymArray)
        Gate.get_unitary = get_unitary      # type: ignore
        Gate.get_grad = get_grad            # type: ignore
        return self

    def __exit__(self, *a: Any) -> None:
        self.Gate.get_unitary = self.ou     # type: ignore
        self.Gate.get_grad = self.og        # type: ignore


def sym_unitary(g: Any, ts: list) -> Any:
    """The gate's own Python get_unitary on exact symbolic parameters -> sympy Matrix (or None
    when the class has no Python-level definition, i.e. it goes to the native evaluator)."""
    from vf import sym
    mods = sym.patch_np(*_gate_modules(g))
    try:
        with sym.sym_mode(), native_model():
            U = g.get_unitary(ts)
        return sym.to_matrix(U)
    finally:
        sym.unpatch_np(*mods)


def sym_grad(g: Any, ts: list) -> Any:
    from vf import sym
    import numpy as np
    mods = sym.patch_np(*_gate_modules(g))
    try:
        with sym.sym_mode(), native_model():
            G = g.get_grad(ts)
        G = np.asarray(G, dtype=object) if not isinstance(G, np.ndarray) else G
        return [sym.to_matrix(G[k]) for k in range(G.shape[0])]
    finally:
        sym.unpatch_np(*mods)


def has_python_def(g: Any, meth: str) -> bool:
    """True when the method resolves to Python code in /repo that does not delegate to `_expr`."""
    from bqskit.ir.gate import Gate
    f = getattr(type(g), meth, None)
    return f is not None and f is not getattr(Gate, meth, None)


def native_unitary(g: Any, params: list) -> Any:
    import numpy as np
    return np.array(g.get_unitary(params).numpy, dtype=complex)


def reference_table() -> dict:
    """Exact matrices for the standard named gates (OpenQASM 2 / qelib1 definitions)."""
    import sympy as sp
    I = sp.I
    r = 1 / sp.sqrt(2)
    w = sp.Rational(-1, 2) + I * sp.sqrt(3) / 2      # exp(2 pi i / 3)
    e4 = r + I * r                                    # exp(i pi / 4)

    def ctrl(u: Any) -> Any:
        n = u.rows
        m = sp.eye(2 * n)
        m[n:, n:] = u
        return m
    X = sp.Matrix([[0, 1], [1, 0]])
    Y = sp.Matrix([[0, -I], [I, 0]])
    Z = sp.Matrix([[1, 0], [0, -1]])
    H = sp.Matrix([[r, r], [r, -r]])
    S = sp.Matrix([[1, 0], [0, I]])
    T = sp.Matrix([[1, 0], [0, e4]])
    SX = sp.Matrix([[1 + I, 1 - I], [1 - I, 1 + I]]) / 2
    SWAP = sp.Matrix([[1, 0, 0, 0], [0, 0, 1, 0], [0, 1, 0, 0], [0, 0, 0, 1]])
    X3 = sp.Matrix([[0, 0, 1], [1, 0, 0], [0, 1, 0]])
    Z3 = sp.diag(1, w, w**2)
    H3 = sp.Matrix(3, 3, lambda i, j: w**(i * j)) / sp.sqrt(3)
    SWAP3 = sp.zeros(9, 9)
    for a in range(3):
        for b in range(3):
            SWAP3[3 * b + a, 3 * a + b] = 1
    CX3 = sp.zeros(9, 9)
    for a in range(3):
        for b in range(3):
            CX3[3 * a + ((b + 1) % 3 if a == 2 else b), 3 * a + b] = 1
    return {
        'XGate()': X, 'YGate()': Y, 'ZGate()': Z, 'HGate()': H, 'SGate()': S, 'SdgGate()': S.H, 'TGate()': T,
        'TdgGate()': T.H, 'SXGate()': SX, 'SXdgGate()': SX.H, 'CXGate()': ctrl(X), 'CYGate()': ctrl(Y),
        'CZGate()': ctrl(Z), 'CHGate()': ctrl(H), 'CSGate()': ctrl(S), 'CTGate()': ctrl(T), 'SwapGate()': SWAP,
        'CCXGate()': ctrl(ctrl(X)), 'IdentityGate(1)': sp.eye(2), 'IdentityGate(2)': sp.eye(4),
        'XGate(3)': X3, 'ShiftGate(3)': X3, 'ZGate(3)': Z3, 'ClockGate(3)': Z3, 'HGate(3)': H3,
        'SwapGate(3)': SWAP3, 'CXGate(3)': CX3,
    }


def _decide(name: str, D: Any, syms: list, timeout: float, res: dict, cvc5: bool = False) -> bool:
    """Adds one identity (matrix D == 0 for all reals) to the result record. False on refutation."""
    from vf import nra
    r = nra.decide_zero(nra.matrix_entries(D), syms, timeout)
    res['sub'].append({'identity': name, 'status': r['status'], 'solver_s': r.get('solver_s'),
                       'detail': r.get('detail', '')})
    res['queries'] += r.get('queries', 0)
    res['solver_s'] += r.get('solver_s', 0) or 0
    if r['status'] == 'refuted':
        res['status'] = 'refuted'
        res['cex'] = {'identity': name, 'params': r['cex']['params']}
        return False
    if r['status'] != 'discharged':
        if res['status'] == 'discharged':
            res['status'] = r['status']
            res['detail'] = '%s: %s' % (name, r.get('detail'))
    elif cvc5:
        c = cvc5_check(nra.smtlib_of(nra.matrix_entries(D), syms), timeout)
        res['sub'][-1]['cvc5'] = c
        if c not in ('unsat', 'trivial'):
            res['status'] = 'inconclusive'
            res['detail'] = '%s: cvc5 answered %s where z3 answered unsat' % (name, c)
    return True


def cvc5_check(smt: str | None, timeout: float) -> str:
    if smt is None:
        return 'trivial'
    import os
    import subprocess
    import tempfile
    with tempfile.NamedTemporaryFile('w', suffix='.smt2', delete=False) as f:
        f.write(smt + '\n(check-sat)\n' if '(check-sat)' not in smt else smt)
        path = f.name
    try:
        import cvc5  # noqa: F401  (python wheel present => use its solver through the API)
        from cvc5 import Solver, InputParser, SymbolManager
        s = Solver()
        s.setOption('tlimit', str(int(timeout * 1000)))
        sm = SymbolManager(s)
        p = InputParser(s, sm)
        p.setFileInput(cvc5.InputLanguage.SMT_LIB_2_6, path)
        ans = 'unknown'
        while True:
            cmd = p.nextCommand()
            if cmd.isNull():
                break
            out = cmd.invoke(s, sm)
            if out.strip() in ('sat', 'unsat', 'unknown'):
                ans = out.strip()
        return ans
    except Exception as e:
        return 'error:%s' % type(e).__name__
    finally:
        os.unlink(path)


def check_gate(shard: dict, timeout: float) -> dict:
    import numpy as np
    import sympy as sp
    sym = _setup()
    from vf import qgl
    t_start = time.perf_counter()
    res: dict = {'status': 'discharged', 'queries': 0, 'solver_s': 0.0, 'sub': [], 'detail': ''}
    g = _make(shard['mk'])
    n = g.num_params
    ts = sym.symbols(n)
    syms = [t.e for t in ts]
    per = max(10.0, timeout / 8)
    cv = bool(shard.get('cvc5'))
    rng = np.random.default_rng(12345)
    M = None
    # --- plain numeric smoke run: advertised dimension / radixes, no exception
    p0 = [0.3 + 0.17 * i for i in range(n)]
    try:
        U0 = g.get_unitary(p0)
        if tuple(U0.radixes) != tuple(g.radixes) or U0.dim != g.dim or len(g.radixes) != g.num_qudits:
            return {'status': 'refuted', 'queries': 0, 'solver_s': 0.0,
                    'cex': {'identity': 'radixes', 'params': {'t%d' % i: v for i, v in enumerate(p0)}}}
    except Exception as e:
        return {'status': 'refuted', 'queries': 0, 'solver_s': 0.0, 'detail': repr(e),
                'cex': {'identity': 'get_unitary raises', 'params': {'t%d' % i: v for i, v in enumerate(p0)}}}
    # --- the matrix as the repository's Python code defines it
    if n == 0:
        M = sym.to_matrix(np.array(U0.numpy))
    elif has_python_def(g, 'get_unitary'):
        try:
            M = sym_unitary(g, ts)
        except Exception as e:
            return {'status': 'inconclusive', 'detail': 'symbolic get_unitary failed: %r' % e, 'queries': 0,
                    'solver_s': 0.0}
        # translator validation: symbolic evaluation vs plain numeric execution of the same method
        for _ in range(4):
            p = list(rng.uniform(-4, 4, n))
            num = native_unitary(g, p)
            symv = np.array(M.subs(dict(zip(syms, p))).evalf(30), dtype=complex)
            if not np.allclose(num, symv, atol=1e-9):
                return {'status': 'inconclusive', 'detail': 'shim disagrees with numeric execution', 'queries': 0,
                        'solver_s': 0.0}
    # --- QGL text, if the repository supplies one for this instance
    Q = None
    txt = sym.qgl_text_of(getattr(g, '_expr', None))
    if txt is not None:
        try:
            _, rad, pn, Q = qgl.parse(txt, syms if len(syms) else None)
        except Exception as e:
            return {'status': 'inconclusive', 'detail': 'QGL reader failed: %r on %s' % (e, txt[:80]), 'queries': 0,
                    'solver_s': 0.0}
        if len(pn) != n:
            return {'status': 'inconclusive', 'detail': 'QGL parameter count differs', 'queries': 0, 'solver_s': 0.0}
        for _ in range(16):   # reader vs native evaluator
            p = list(rng.uniform(-4, 4, n))
            nat = np.array(g._expr(*p), dtype=complex)
            rd = np.array(Q.subs(dict(zip(syms, p))).evalf(30), dtype=complex)
            if not np.allclose(nat, rd, atol=1e-9):
                return {'status': 'inconclusive', 'detail': 'QGL reader disagrees with the native evaluator',
                        'queries': 0, 'solver_s': 0.0}
        if rad is not None and tuple(rad) != tuple(g.radixes):
            res['status'] = 'refuted'
            res['cex'] = {'identity': 'radixes', 'params': {}}
            return res
    base = M if M is not None else Q
    if base is None:
        # expression object built into openqudit (no text in /repo): constant named gates are compared with the
        # reference table through their numeric matrix read as exact algebraic numbers
        if n == 0:
            base = sym.to_matrix(np.array(g.get_unitary().numpy))
        else:
            res['status'] = 'inconclusive'
            res['detail'] = 'no Python-level definition and no QGL text in /repo (native built-in)'
    if base is not None:
        dim = int(np.prod(g.radixes))
        if base.rows != dim or base.cols != dim or g.dim != dim or len(g.radixes) != g.num_qudits:
            res['status'] = 'refuted'
            res['cex'] = {'identity': 'dimension', 'params': {}}
            return res
        # O1 unitarity
        if not _decide('O1 U^dagger U = I', base.H * base - sp.eye(dim), syms, per, res, cv):
            return res
        # O2 hand-written == QGL text
        if M is not None and Q is not None:
            if not _decide('O2 hand-written == QGL text', M - Q, syms, per, res, cv):
                return res
        # O7 reference table
        ref = reference_table().get(shard['mk'])
        if ref is not None:
            if not _decide('O7 == reference table', base - ref, syms, per, res, cv):
                return res
        # O3 gradient (only where /repo defines it in Python)
        if n > 0 and has_python_def(g, 'get_grad') and shard['gkind'] != 'composed':
            try:
                Gs = sym_grad(g, ts)
                for k in range(n):
                    if not _decide('O3 grad[%d] == d/dt%d' % (k, k), Gs[k] - sp.diff(base, syms[k]), syms, per, res, cv):
                        return res
            except Exception as e:
                res['sub'].append({'identity': 'O3', 'status': 'inconclusive', 'detail': repr(e)})
                res['status'] = 'inconclusive' if res['status'] == 'discharged' else res['status']
        # O4 inverse
        try:
            inv = g.get_inverse()
            ip = g.get_inverse_params(ts)
            if inv is g and n == 0:
                Minv = base
            elif has_python_def(inv, 'get_unitary'):
                Minv = sym_unitary(inv, list(ip))
            else:
                itxt = sym.qgl_text_of(getattr(inv, '_expr', None))
                if itxt is not None:
                    isyms = [sp.Symbol('u%d' % i, real=True) for i in range(inv.num_params)]
                    Minv = qgl.parse(itxt, isyms)[3].subs(dict(zip(isyms, [sym.Sym(x).e for x in ip])))
                elif inv.num_params == 0:
                    Minv = sym.to_matrix(np.array(inv.get_unitary().numpy))
                else:
                    Minv = None
            if Minv is not None:
                if not _decide('O4 inverse * U = I', Minv * base - sp.eye(dim), syms, per, res, cv):
                    return res
        except Exception as e:
            res['sub'].append({'identity': 'O4', 'status': 'inconclusive', 'detail': repr(e)})
        # O5 composed gates
        if shard['gkind'] == 'composed':
            exp = composed_reference(g, ts)
            if exp is None:
                res['sub'].append({'identity': 'O5', 'status': 'inconclusive', 'detail': 'no reference'})
                res['status'] = 'inconclusive'
            else:
                if not _decide('O5 composed == algebraic composition', base - exp, syms, per, res, cv):
                    return res
                if n > 0 and has_python_def(g, 'get_grad'):
                    try:
                        Gs = sym_grad(g, ts)
                        for k in range(n):
                            if not _decide('O3 grad[%d] == d/dt%d' % (k, k), Gs[k] - sp.diff(exp, syms[k]), syms,
                                           per, res, cv):
                                return res
                    except Exception as e:
                        res['sub'].append({'identity': 'O3', 'status': 'inconclusive', 'detail': repr(e)})
                        res['status'] = 'inconclusive'
    res['solver_s'] = round(res['solver_s'], 3)
    res['wall'] = round(time.perf_counter() - t_start, 2)
    return res


def leaf_matrix(g: Any, ts: list) -> Any:
    """Matrix of a non-composed gate: Python definition, else QGL text, else constant numeric."""
    import numpy as np
    import sympy as sp
    from vf import qgl, sym
    if not any(isinstance(x, sym.Sym) for x in ts):
        return sym.to_matrix(np.array(g.get_unitary([float(x) for x in ts]).numpy))
    if has_python_def(g, 'get_unitary'):
        return sym_unitary(g, ts)
    txt = sym.qgl_text_of(getattr(g, '_expr', None))
    if txt is not None:
        isyms = [sp.Symbol('v%d' % i, real=True) for i in range(g.num_params)]
        return qgl.parse(txt, isyms)[3].subs(dict(zip(isyms, [sym.Sym(x).e for x in ts])))
    if g.num_params == 0:
        return sym.to_matrix(np.array(g.get_unitary().numpy))
    b = builtin_matrix(type(g).__name__, ts, g)
    if b is not None:
        return b
    raise ValueError('no source-level matrix for %r' % g)


RX = RY = RZ = None


def builtin_matrix(name: str, ts: list, gate: Any = None) -> Any:
    import numpy as np
    import sympy as sp
    from vf import sym
    t = [x.e if hasattr(x, 'e') else sp.sympify(x) for x in ts]
    I = sp.I
    if gate is not None and gate.num_params == 0:
        return sym.to_matrix(np.array(gate._expr(), dtype=complex))
    if name in ('RXXGate', 'RYYGate'):
        c, s = sp.cos(t[0] / 2), sp.sin(t[0] / 2)
        sg = 1 if name == 'RYYGate' else -1
        return sp.Matrix([[c, 0, 0, sg * I * s], [0, c, -I * s, 0], [0, -I * s, c, 0], [sg * I * s, 0, 0, c]])
    if name == 'RXGate':
        c, s = sp.cos(t[0] / 2), sp.sin(t[0] / 2)
        return sp.Matrix([[c, -I * s], [-I * s, c]])
    if name == 'RYGate':
        c, s = sp.cos(t[0] / 2), sp.sin(t[0] / 2)
        return sp.Matrix([[c, -s], [s, c]])
    if name == 'RZGate':
        return sp.Matrix([[sp.exp(-I * t[0] / 2), 0], [0, sp.exp(I * t[0] / 2)]])
    if name == 'RZZGate':
        a, b = sp.exp(-I * t[0] / 2), sp.exp(I * t[0] / 2)
        return sp.diag(a, b, b, a)
    if name == 'U1Gate':
        return sp.Matrix([[1, 0], [0, sp.exp(I * t[0])]])
    return None


def composed_reference(g: Any, ts: list) -> Any:
    """Independent algebraic composition (recursive) of a composed gate on exact parameters."""
    import sympy as sp
    import numpy as np
    from bqskit.ir.gates import (ControlledGate, DaggerGate, EmbeddedGate, FrozenParameterGate, PowerGate,
                                 TaggedGate)
    from vf import sym
    ex = [sym.Sym(x).e for x in ts]
    if isinstance(g, DaggerGate):
        return composed_reference(g.gate, ts).H
    if isinstance(g, PowerGate):
        U = composed_reference(g.gate, ts)
        k = g.power
        base = U if k >= 0 else U.H
        out = sp.eye(U.rows)
        for _ in range(abs(k)):
            out = out * base
        return out
    if isinstance(g, TaggedGate):
        return composed_reference(g.gate, ts)
    if isinstance(g, FrozenParameterGate):
        full = []
        it = iter(ts)
        for i in range(g.gate.num_params):
            if i in g.frozen_params:
                full.append(g.frozen_params[i])      # the concrete value, as the real code passes it
            else:
                full.append(next(it))
        return composed_reference(g.gate, full)
    if isinstance(g, ControlledGate):
        U = composed_reference(g.gate, ts)
        radixes = list(g.control_radixes)
        levels = [list(l) for l in g.control_levels]
        cdim = int(np.prod(radixes))
        d = U.rows
        out = sp.zeros(cdim * d, cdim * d)
        for ci in range(cdim):
            digits = []
            x = ci
            for r in reversed(radixes):
                digits.append(x % r)
                x //= r
            digits.reverse()
            active = all(digits[j] in levels[j] for j in range(len(radixes)))
            blk = U if active else sp.eye(d)
            out[ci * d:(ci + 1) * d, ci * d:(ci + 1) * d] = blk
        return out
    if isinstance(g, EmbeddedGate):
        U = composed_reference(g.gate, ts)
        dim = int(np.prod(g.radixes))
        out = sp.eye(dim)
        lm = list(g.level_maps) if hasattr(g, 'level_maps') else None
        # embedded index list: positions of the big matrix that carry the small one
        idx = embedded_indices(g)
        if idx is None:
            return None
        for a, ia in enumerate(idx):
            for b, ib in enumerate(idx):
                out[ia, ib] = U[a, b]
        return out
    return leaf_matrix(g, ts)


def embedded_indices(g: Any) -> list[int] | None:
    """Big-matrix indices holding the embedded gate: product over qudits of the level maps,
    qudit 0 most significant (textbook definition, computed from the constructor arguments)."""
    import itertools
    lm = getattr(g, 'level_maps', None)
    if lm is None:
        return None
    radixes = list(g.radixes)
    out = []
    for combo in itertools.product(*[list(m) for m in lm]):
        i = 0
        for r, lvl in zip(radixes, combo):
            i = i * r + lvl
        out.append(i)
    return out


def check_eq_hash(shard: dict, timeout: float) -> dict:
    """O6: g1 == g2 => hash(g1) == hash(g2), and equal gates have equal matrices, over the catalogue
    built twice (fresh constructions) plus near-miss constructions."""
    _setup()
    cat = catalogue('thorough')
    n = 0
    gs = []
    for c in cat:
        try:
            gs.append((c['mk'], _make(c['mk']), _make(c['mk'])))
        except Exception:
            continue
    for mk, a, b in gs:
        n += 1
        if not (a == b) or hash(a) != hash(b):
            return {'status': 'refuted', 'queries': n, 'solver_s': 0.0,
                    'cex': {'identity': 'O6 fresh constructions differ', 'params': {}, 'mk': mk}}
    for i, (mk1, a, _) in enumerate(gs):
        for mk2, b, _ in gs[i + 1:]:
            n += 1
            if a == b and hash(a) != hash(b):
                return {'status': 'refuted', 'queries': n, 'solver_s': 0.0,
                        'cex': {'identity': 'O6 equal but different hash', 'params': {}, 'mk': mk1 + ' / ' + mk2}}
    return {'status': 'discharged', 'queries': n, 'solver_s': 0.0,
            'detail': 'constructor-space check (no solver): %d comparisons' % n}


def replay(shard: dict, cex: dict) -> tuple[bool, str]:
    """Re-evaluates the violated identity numerically through the unmodified gate code."""
    import numpy as np
    _setup()
    if 'mk' in cex:
        a, b = [_make(m.strip()) for m in cex['mk'].split(' / ')] if ' / ' in cex['mk'] else \
            (_make(cex['mk']), _make(cex['mk']))
        bad = (a == b and hash(a) != hash(b)) or (' / ' not in cex['mk'] and a != b)
        return bad, 'eq/hash: %r %r' % (a, b)
    g = _make(shard['mk'])
    n = g.num_params
    p = [float(cex['params'].get('t%d' % i, 0.3 + 0.1 * i)) for i in range(n)]
    ident = cex['identity']
    try:
        U = np.array(g.get_unitary(p).numpy, dtype=complex)
    except Exception as e:
        return True, 'gate %s params %r: get_unitary raises %r' % (shard['mk'], p, e)
    dim = U.shape[0]
    eye = np.eye(dim)
    detail = 'gate %s params %r identity %s' % (shard['mk'], p, ident)
    tol = 1e-7

    def fd(k: int) -> Any:
        h = 1e-6
        pp, pm = list(p), list(p)
        pp[k] += h
        pm[k] -= h
        return (np.array(g.get_unitary(pp).numpy) - np.array(g.get_unitary(pm).numpy)) / (2 * h)
    if ident == 'get_unitary raises':
        return False, detail + ' (no exception on replay)'
    if ident in ('dimension', 'radixes'):
        bad = tuple(g.get_unitary(p).radixes) != tuple(g.radixes)
        return bad, detail + ' unitary radixes %r vs gate radixes %r' % (g.get_unitary(p).radixes, g.radixes)
    if ident.startswith('O1'):
        err = np.abs(U.conj().T @ U - eye).max()
        return err > tol, detail + ' |U^dU - I| = %g' % err
    if ident.startswith('O2'):
        Q = np.array(g._expr(*p), dtype=complex)
        err = np.abs(U - Q).max()
        return err > tol, detail + ' |hand-written - expression| = %g' % err
    if ident.startswith('O7'):
        ref = np.array(reference_table()[shard['mk']].evalf(30), dtype=complex)
        err = np.abs(U - ref).max()
        return err > tol, detail + ' |U - reference| = %g' % err
    if ident.startswith('O3'):
        k = int(ident.split('[')[1].split(']')[0])
        G = np.array(g.get_grad(p), dtype=complex)
        err = np.abs(G[k] - fd(k)).max()
        return err > 1e-5, detail + ' |grad - finite difference| = %g' % err
    if ident.startswith('O4'):
        inv = g.get_inverse()
        Ui = np.array(inv.get_unitary(list(g.get_inverse_params(p))).numpy, dtype=complex)
        err = np.abs(Ui @ U - eye).max()
        return err > tol, detail + ' |U_inv U - I| = %g' % err
    if ident.startswith('O5'):
        from vf import sym
        import sympy as sp
        exp = composed_reference(g, [sym.Sym(sp.Float(x, 30)) for x in p])
        ref = np.array(sp.Matrix(exp).evalf(30), dtype=complex)
        err = np.abs(U - ref).max()
        return err > tol, detail + ' |composed - composition| = %g' % err
    return False, detail + ' (unknown identity)'
