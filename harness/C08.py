"""C08 - partitioning regroups operations without changing the program.

One obligation = one real pass (QuickPartitioner / ScanPartitioner / GreedyPartitioner /
ClusteringPartitioner / GroupSingleQuditGatePass, optionally followed by ExtendBlockSizePass)
on every input circuit of a family: n operations whose kind (1/2/3-qudit tagged gate,
already-blocked CircuitGate, barrier, measurement, reset), location, the block size, an
optional gap (one operation popped again) and - for the clustering pass - the scripted
random draws are all symbolic integers. CrossHair/z3 decides every split (rt.P), the pass and
the oracle then run natively on the realised circuit (harness/c08_core.py).

Oracle (independent of the passes, harness/c08_core.py:oracle): representation invariant of
the output and of every block body; barrier-like operations are top-level operations of the
output; every block spans <= block size qudits (or is exactly as wide as one gate in it);
multiset of (tag, params) preserved; per-qudit timelines (tag, index in location, params) of
the output - blocks expanded by the harness and, separately, by BQSKit's unfold_all() -
equal the input's (this includes the position of every barrier/measurement/reset relative to
all operations sharing a qudit with it).
"""
from __future__ import annotations

from harness.c08_core import arity_of, check_case
from vf import rt

PROPERTY = 'C08'
LEVEL = 'model_checking'
ENCODED = [
    'bqskit.passes.partitioning.quick:QuickPartitioner.run', 'bqskit.passes.partitioning.quick:Bin',
    'bqskit.passes.partitioning.quick:BarrierBin',
    'bqskit.passes.partitioning.scan:ScanPartitioner.{run,fold_circuit,calculate_qudit_groups,'
    'calculate_qudit_group_map,calculate_initial_blocks,find_best_block,calculate_block,FastRegionIterator}',
    'bqskit.passes.partitioning.greedy:GreedyPartitioner.{run,topo_sort}',
    'bqskit.passes.partitioning.cluster:ClusteringPartitioner.run',
    'bqskit.passes.partitioning.single:GroupSingleQuditGatePass.run',
    'bqskit.passes.util.extend:ExtendBlockSizePass.{run,get_neighbors}',
    'bqskit.ir.circuit:Circuit.{get_slice,fold,straighten,batch_pop,insert_circuit,append_circuit,append_gate,'
    'append,extend,surround,get_region,downsize_region,check_region,is_valid_region,next,prev,become,'
    'batch_replace,operations_with_cycles,unfold_all,copy}',
    'bqskit.ir.region:CircuitRegion.{overlaps,depends_on,points,__contains__}', 'bqskit.ir.interval:CycleInterval',
    'bqskit.ir.gates.circuitgate:CircuitGate', 'bqskit.compiler.machine:MachineModel.get_locations',
]
ASSUMPTIONS = [
    'gates are harness-tagged gates without numerics (identity = tag; 1- and 2-qudit gates carry one parameter '
    'with a distinct value); barrier-like operations are the real BarrierPlaceholder / MeasurementPlaceholder / Reset',
    'input circuits are built with Circuit.append in a symbolic order (plus, in the gap families, one symbolic pop)',
    'locations are ascending qudit tuples unless the family says rev (then also the reversed tuple)',
    'PassData is built with __new__ (all-to-all MachineModel of the circuit width, empty user data); none of the '
    'passes awaits the runtime',
    'ClusteringPartitioner: numpy.random.randint inside cluster.py is replaced by a script: per round two '
    'independent symbolic draws (used alternately for its 4 draws), each addressing any operation of the current '
    'circuit; the qudit through which the operation is addressed is not varied independently',
    'ScanPartitioner refusing a circuit with a gate wider than the block size with its explicit RuntimeError '
    '("cannot handle gates larger than block size") is accepted when the circuit is left untouched',
    'after the solver fixed every integer of a case, the pass and the oracle run with CrossHair\'s instruction '
    'monitor switched off (harness/C08.py:native); only concrete values cross that boundary',
    'early-flush family: QuickPartitioner is handed a Circuit subclass that only counts get_slice calls made '
    'while the main loop iterates (observation only); reached counts exactly the paths that took the early flush',
]
BOUNDS = {
    'quick': 'per family every circuit of n ops x every ascending location x block size: Quick+Scan+GroupSingle and '
             'Greedy: n<=3 ops of arity 1/2/3 on 4 qudits (block 2-4; Greedy 2-3), n<=3 incl. already-blocked ops on 3 '
             'qudits (block 2-3), block size 4 on 3 qudits; Quick alone n<=4 two-qudit ops on 4 qudits; Quick+GroupSingle '
             'with barrier/measurement/reset: n<=3 on 3-4 qudits (4 kind sets), n<=2 of all 11 kinds on 3 qudits (block '
             '2-4); Scan/Greedy/Clustering with barriers n<=2; Clustering: n<=3 on 3 qudits (1 round, 2 free draws), n<=2 '
             'on 4 qudits (2 rounds); ExtendBlockSize(2..3) after Quick/GroupSingle: n<=3 on 3 qudits; gaps (one pop) n<=3 '
             'on 3 qudits; Quick early flush: 10-11 ops on 6 qudits, 5-6 symbolic positions x 3 variants, block 2-4',
    'thorough': 'Quick+Scan+GroupSingle: n<=5 two-qudit ops on 5 qudits (block 3; block 2-4 for n<=4 and for n=5 on 4 '
                'qudits), n<=4 mixed arity on 4 qudits (block 2-3), n<=3 mixed on 5 qudits (block 2-3), reversed '
                'locations / gaps / already-blocked n<=3 on 4 qudits; Greedy: n<=4 two-qudit on 5 qudits, n<=4 mixed on 4 '
                'qudits (first op 3-qudit), n<=3 otherwise; barrier families n<=4 on 3 qudits, n<=3 on 4-5 qudits; '
                'Clustering n<=3 on 3-5 qudits, up to 2 rounds; ExtendBlockSize(2..4) after Quick/Scan/GroupSingle n<=3 on '
                '4 qudits; block size > width; Quick early flush: 10-11 ops on 6 qudits with 8 symbolic positions x 3 '
                'variants (block 2-4), and with one barrier-like op at a symbolic position',
}
OUTSIDE = ('gtqcp.py and tdag.py (distributed-aware partitioners: need remote-edge models, not claimed); circuits '
           'wider than 6 qudits / longer than the stated n; radix other than 2; block size > 4; location orders other '
           'than ascending/reversed; nested blocks deeper than one level; scoring functions other than the defaults; '
           'GreedyPartitioner keep_idle_qudits=True; ExtendBlockSizePass with a non all-to-all coupling graph')

NINT = 5  # symbolic ints per operation: kind, q0, q1, q2, reversed


def native(fn, *a):  # type: ignore
    """rt.nt plus: CrossHair (Python 3.12) traces through a global sys.monitoring INSTRUCTION
    hook that keeps firing (and returning early) inside NoTracing; switching the tool's event
    set off for the duration of the all-concrete call makes it run at interpreter speed
    (~6x faster per path). Only concrete values flow in and out."""
    if rt.CONCRETE:
        return fn(*a)
    import sys
    from crosshair.tracers import NoTracing, is_tracing
    if not is_tracing():
        return fn(*a)
    with NoTracing():
        mon = getattr(sys, 'monitoring', None)
        tool = None
        if mon is not None:
            from crosshair import tracers
            tool = getattr(tracers, 'SYS_MONITORING_TOOL_ID', None)
        if tool is None:
            return fn(*a)
        ev = mon.get_events(tool)
        mon.set_events(tool, 0)
        try:
            return fn(*a)
        finally:
            mon.set_events(tool, ev)


@rt.natively
def run_case(n: int, xs: list, bs: int, gp: int, ds: list, ex: int) -> bool:
    rt.begin()
    S = rt.SHARD
    W = S['W']
    parts = S['parts']
    assert n == S['n']
    specs = []
    for i in range(n):
        k, a, b, c, r = xs[NINT * i: NINT * i + NINT]
        kinds = [x for x in S.get('kinds%d' % i, S['kinds']) if arity_of(x) <= W]
        kind = kinds[rt.P(k, 0, len(kinds) - 1)]
        ar = arity_of(kind)
        lo, hi = S['a0'] if (i == 0 and 'a0' in S) else (0, W)
        loc = [rt.P(a, max(0, lo), min(W - ar, hi))]
        if ar >= 2:
            loc.append(rt.P(b, loc[0] + 1, W - ar + 1))
        if ar == 3:
            loc.append(rt.P(c, loc[1] + 1, W - 1))
        if S.get('rev') and ar >= 2 and rt.P(r, 0, 1) == 1:
            loc.reverse()
        specs.append((kind, loc))
    bsv = 1 if parts == ['single'] else rt.P(bs, S['bs'][0], S['bs'][1])
    pop = rt.P(gp, -1, n - 1) if S.get('pop') and n > 1 else -1
    points = S.get('points', 1)
    script = None
    if 'cluster' in parts:
        script = [rt.P(d, 0, n - 1) for d in ds[:2 * points]]
    ext = None
    if S.get('extend'):
        ext = rt.P(ex, S['extend'][0], S['extend'][1])
    # every pass of the family on its own copy of the realised circuit
    for which in parts:
        fp = native(check_case, which, W, specs, bsv, pop, script, points, ext, rt.log if rt.CONCRETE else None)
        if fp is not None:
            if rt.CONCRETE:
                rt.log('violated:', fp, '| pass', which, 'block size', bsv, 'specs (kind, location)', specs,
                       'pop', pop, 'script', script, 'extend', ext)
            if not rt.fail(fp):
                rt.reach()
                return False
    rt.reach()
    return True


# Early flush of QuickPartitioner (`num_closed >= 5` inside the main loop).
FLUSH_W = 6
FLUSH_BASES = {
    # ring pairs in layers: with block size 2 every layer closes the bins of the layer before
    'pairs': [(0, 1), (2, 3), (4, 5), (1, 2), (3, 4), (0, 5), (0, 1), (2, 3), (4, 5), (1, 2), (3, 4)],
    # interleaved triples: full 3-qudit bins are closed by the next layer for block sizes 2-4
    'triples': [(0, 1, 2), (3, 4, 5), (2, 3, 4), (0, 1, 5), (0, 1, 2), (3, 4, 5), (2, 3, 4), (0, 1, 5), (0, 1, 2),
                (3, 4, 5)],
}


@rt.natively
def flush_case(vs: list, bs: int, bk: int, bp: int, bq: int) -> bool:
    """10-11 operations on 6 qudits (SHARD['base']). Position i >= SHARD['first'] has a symbolic
    variant: 0 the base location, 1 the location shifted by one qudit (mod 6), 2 a gate one
    qudit narrower on the leading qudit(s). Optionally (SHARD['barrier']) one barrier-like
    operation of symbolic kind (2-qudit barrier / reset / 6-qudit barrier) is inserted at a
    symbolic position on a symbolic qudit. `reached` counts the paths on which the pending bins
    were flushed inside the main loop."""
    rt.begin()
    S = rt.SHARD
    first = S['first']
    nv = S.get('variants', 3)
    base = FLUSH_BASES[S.get('base', 'pairs')]
    specs = []
    for i, t in enumerate(base):
        v = 0
        if i >= first and i - first < len(vs):
            fixed = S.get('fix', {}).get(str(i))
            v = fixed if fixed is not None else rt.P(vs[i - first], 0, nv - 1)
        if v == 0:
            loc = sorted(t)
        elif v == 1:
            loc = sorted((x + 1) % FLUSH_W for x in t)
        else:
            loc = sorted(t)[:len(t) - 1]
        specs.append((len(loc), loc))
    bsv = rt.P(bs, S['bs'][0], S['bs'][1])
    if S.get('barrier'):
        kind = [7, 11, 12][rt.P(bk, 0, 2)]
        pos = rt.P(bp, 0, len(specs))
        if kind == 12:
            specs.insert(pos, (12, list(range(FLUSH_W))))
        else:
            q = rt.P(bq, 0, FLUSH_W - 2)
            specs.insert(pos, (kind, [q, q + 1] if kind == 7 else [q]))
    spy: dict = {}
    fp = native(check_case, 'quick', FLUSH_W, specs, bsv, -1, None, 1, None, rt.log if rt.CONCRETE else None, spy)
    early = spy.get('early', 0) > 0
    if early:
        rt.reach()
    if fp is None:
        return True
    if rt.CONCRETE:
        rt.log('violated:', fp, '| block size', bsv, 'specs (kind, location)', specs)
    if rt.fail(fp):
        return True
    if not early:
        rt.reach()
    return False



# Rings: W two-qudit gates on the W edges of a ring, in EVERY order (chains of bins that depend on one another
# all the way round; the partitioners' cycle-avoidance logic is what is exercised).
RING_LABELS = {
    'id': lambda W: list(range(W)),
    'evens-odds': lambda W: [q for q in range(W) if q % 2 == 0] + [q for q in range(W) if q % 2 == 1],
    'stride': lambda W: sorted(range(W), key=lambda q: (q * 3 % W, q)) if W % 3 else [0, 3, 1, 4, 2, 5][:W],
}


@rt.natively
def ring_case(vs: list, bs: int) -> bool:
    rt.begin()
    S = rt.SHARD
    W = S['W']
    lab = RING_LABELS[S['labels']](W)
    edges = [sorted((lab[i], lab[(i + 1) % W])) for i in range(W)]
    rest = list(range(W))
    order = []
    for i in range(W):       # a permutation of the edges, as a Lehmer code of symbolic digits
        order.append(rest.pop(rt.P(vs[i], 0, len(rest) - 1)))
    specs = [(2, edges[j]) for j in order]
    bsv = rt.P(bs, S['bs'][0], S['bs'][1])
    for which in S['parts']:
        fp = native(check_case, which, W, specs, bsv, -1, None, 1, None, rt.log if rt.CONCRETE else None)
        if fp is not None:
            if rt.CONCRETE:
                rt.log('violated:', fp, '| pass', which, 'block size', bsv, 'specs (kind, location)', specs)
            if not rt.fail(fp):
                rt.reach()
                return False
    rt.reach()
    return True


def ring(v0: int, v1: int, v2: int, v3: int, v4: int, v5: int, bs: int) -> bool:
    """
    post: _
    """
    return ring_case([v0, v1, v2, v3, v4, v5], bs)


def e1(k0: int, a0: int, b0: int, c0: int, r0: int, bs: int, gp: int, d0: int, d1: int, d2: int, d3: int,
       ex: int) -> bool:
    """
    post: _
    """
    return run_case(1, [k0, a0, b0, c0, r0], bs, gp, [d0, d1, d2, d3], ex)


def e2(k0: int, a0: int, b0: int, c0: int, r0: int, k1: int, a1: int, b1: int, c1: int, r1: int,
       bs: int, gp: int, d0: int, d1: int, d2: int, d3: int, ex: int) -> bool:
    """
    post: _
    """
    return run_case(2, [k0, a0, b0, c0, r0, k1, a1, b1, c1, r1], bs, gp, [d0, d1, d2, d3], ex)


def e3(k0: int, a0: int, b0: int, c0: int, r0: int, k1: int, a1: int, b1: int, c1: int, r1: int,
       k2: int, a2: int, b2: int, c2: int, r2: int,
       bs: int, gp: int, d0: int, d1: int, d2: int, d3: int, ex: int) -> bool:
    """
    post: _
    """
    return run_case(3, [k0, a0, b0, c0, r0, k1, a1, b1, c1, r1, k2, a2, b2, c2, r2], bs, gp, [d0, d1, d2, d3], ex)


def e4(k0: int, a0: int, b0: int, c0: int, r0: int, k1: int, a1: int, b1: int, c1: int, r1: int,
       k2: int, a2: int, b2: int, c2: int, r2: int, k3: int, a3: int, b3: int, c3: int, r3: int,
       bs: int, gp: int, d0: int, d1: int, d2: int, d3: int, ex: int) -> bool:
    """
    post: _
    """
    return run_case(4, [k0, a0, b0, c0, r0, k1, a1, b1, c1, r1, k2, a2, b2, c2, r2, k3, a3, b3, c3, r3],
                    bs, gp, [d0, d1, d2, d3], ex)


def e5(k0: int, a0: int, b0: int, c0: int, r0: int, k1: int, a1: int, b1: int, c1: int, r1: int,
       k2: int, a2: int, b2: int, c2: int, r2: int, k3: int, a3: int, b3: int, c3: int, r3: int,
       k4: int, a4: int, b4: int, c4: int, r4: int,
       bs: int, gp: int, d0: int, d1: int, d2: int, d3: int, ex: int) -> bool:
    """
    post: _
    """
    return run_case(5, [k0, a0, b0, c0, r0, k1, a1, b1, c1, r1, k2, a2, b2, c2, r2, k3, a3, b3, c3, r3,
                        k4, a4, b4, c4, r4], bs, gp, [d0, d1, d2, d3], ex)


def fl(v0: int, v1: int, v2: int, v3: int, v4: int, v5: int, v6: int, v7: int,
       bs: int, bk: int, bp: int, bq: int) -> bool:
    """
    post: _
    """
    return flush_case([v0, v1, v2, v3, v4, v5, v6, v7], bs, bk, bp, bq)


G = [1, 2, 3]             # tagged gates of arity 1, 2, 3
GB = [1, 2, 4, 5]         # + already blocked (1- and 2-qudit CircuitGates)
BA = [1, 2, 7, 11]        # 1q gate, 2q gate, 2-qudit barrier, reset
BB = [2, 6, 9, 10]        # 2q gate, 1-qudit barrier, 1- and 2-qudit measurement
BC = [2, 3, 8]            # 2q/3q gates, 3-qudit barrier
ALLK = [1, 2, 3, 4, 5, 6, 7, 8, 9, 10, 11]


def obligations(tier: str) -> list[dict]:
    obs: list[dict] = []

    def ob(parts: list, W: int, n: int, kinds: list, bs: list, timeout: int, tag: str, **kw: object) -> None:
        sh = {'parts': parts, 'W': W, 'n': n, 'kinds': kinds, 'bs': bs}
        sh.update(kw)
        extra = ''.join('/%s%s' % (k, '' if v is True else str(v).replace(' ', '')) for k, v in sorted(kw.items())
                        if not k.startswith('kinds'))
        sub = ''.join('/%s=%s' % (k, '.'.join(map(str, v))) for k, v in sorted(kw.items()) if k.startswith('kinds'))
        obs.append({'name': '%s/%s-k%s/W%d/n%d/bs%d-%d%s%s' % ('+'.join(parts), tag, '.'.join(map(str, kinds)), W, n,
                                                              bs[0], bs[1], extra, sub),
                    'func': 'e%d' % n, 'shard': sh, 'timeout': timeout})

    def flush(first: int, bs: list, timeout: int, **kw: object) -> None:
        sh = {'first': first, 'bs': bs}
        sh.update(kw)
        extra = ''.join('/%s%s' % (k, '' if v is True else str(v).replace(' ', '').replace("'", ''))
                        for k, v in sorted(kw.items()))
        obs.append({'name': 'quick/earlyflush-%s/first%d/bs%d-%d%s' % (kw.get('base', 'pairs'), first, bs[0], bs[1],
                                                                      extra.replace('/base' + str(kw.get('base')), '')),
                    'func': 'fl',
                    'shard': sh, 'timeout': timeout})

    def ring(W: int, labels: str, parts: list, bs: list, timeout: int) -> None:
        obs.append({'name': '%s/ring/W%d/%s/bs%d-%d' % ('+'.join(parts), W, labels, bs[0], bs[1]), 'func': 'ring',
                    'shard': {'W': W, 'labels': labels, 'parts': parts, 'bs': bs}, 'timeout': timeout})

    QSS = ['quick', 'scan', 'single']     # share a path: same realised circuit, each pass on its own copy
    QS = ['quick', 'single']              # the two passes that know about barrier-like operations
    GR = ['greedy']
    CL = ['cluster']
    if tier == 'quick':
        T = 600
        for b in (2, 3, 4):
            ob(QSS, 4, 3, G, [b, b], T, 'gates')
        for b in (2, 3):
            ob(GR, 4, 3, G, [b, b], T, 'gates')
        ob(['quick'], 4, 4, [2], [2, 3], T, 'twoq')
        ob(GR, 4, 4, [2], [3, 3], T, 'twoq')     # smallest family with mutually dependent regions
        ob(QS, 3, 2, ALLK, [2, 4], T, 'allkinds')
        ob(['quick', 'scan'], 3, 3, G + [4, 5], [4, 4], T, 'wideblock')
        ob(GR, 3, 2, G, [4, 4], T, 'wideblock')
        ob(CL, 3, 2, G, [4, 4], T, 'wideblock')
        for b in (2, 3):
            ob(QSS, 3, 3, GB, [b, b], T, 'blocked')
            ob(GR, 3, 3, GB, [b, b], T, 'blocked')
            ob(QS, 3, 3, BA, [b, b], T, 'barriers-a')
            ob(QS, 3, 3, BB, [b, b], T, 'barriers-b')
            ob(QS, 4, 3, BC, [b, b], T, 'barriers-c')
        ob(['scan'], 3, 2, BA, [2, 2], T, 'barriers-a')
        ob(GR, 3, 2, BA, [2, 2], T, 'barriers-a')
        ob(CL, 3, 2, BA, [2, 2], T, 'barriers-a')
        ob(CL, 3, 3, G, [3, 3], T, 'gates')
        ob(CL, 3, 3, [1, 2], [2, 2], T, 'gates')
        ob(CL, 4, 2, [1, 2], [2, 3], T, 'gates', points=2)
        ob(CL, 3, 2, G, [2, 2], T, 'widegate')
        ob(CL, 3, 2, GB, [2, 3], T, 'blocked')
        ob(QS, 3, 3, [1, 2, 4], [2, 2], T, 'then-extend', extend=[2, 3])
        ob(['single'], 3, 2, [1, 2, 4, 7], [1, 1], T, 'then-extend', extend=[2, 3])
        ob(QSS, 3, 3, [1, 2], [2, 3], T, 'gaps', pop=True)
        # ScanPartitioner needs block size >= 3 and >= 5 qudits before two group qudits can resume at the same cycle
        for a0 in ([0, 0], [1, 1]):
            ob(['scan'], 5, 4, [2], [3, 3], T, 'twoq', a0=a0)
        flush(5, [2, 2], T)
        flush(5, [2, 4], T, base='triples')
        ring(6, 'id', QSS, [3, 3], T)
        ring(6, 'evens-odds', QSS, [3, 3], T)
        ring(5, 'evens-odds', QSS, [2, 3], T)
        return obs

    T = 3000
    for a0 in ([0, 0], [1, 1], [2, 3]):
        ob(QSS, 5, 5, [2], [3, 3], T, 'twoq', a0=a0)
    ob(QSS, 4, 5, [2], [2, 4], T, 'twoq')
    ob(QSS, 5, 4, [2], [2, 4], T, 'twoq')
    ob(GR, 5, 4, [2], [2, 3], T, 'twoq')
    for k0 in G:
        ob(QSS, 4, 4, G, [2, 3], T, 'mixed', kinds0=[k0])
    ob(GR, 4, 4, G, [2, 3], T, 'mixed', kinds0=[3])
    ob(QSS, 5, 3, G, [2, 3], T, 'mixed')
    ob(GR, 5, 3, G, [2, 3], T, 'mixed')
    ob(QSS, 4, 3, GB, [2, 3], T, 'blocked')
    ob(GR, 4, 3, GB, [2, 3], T, 'blocked')
    ob(QSS, 4, 3, G, [2, 3], T, 'rev', rev=True)
    ob(QSS, 4, 3, G, [2, 3], T, 'gaps', pop=True)
    ob(QS, 3, 3, ALLK, [2, 3], T, 'allkinds')
    ob(['quick', 'scan'], 3, 4, G + [4, 5], [4, 4], T, 'wideblock')
    ob(['quick', 'scan'], 4, 3, G + [4, 5], [5, 5], T, 'wideblock')
    ob(GR, 3, 3, G + [4, 5], [4, 4], T, 'wideblock')
    ob(CL, 3, 3, G, [4, 4], T, 'wideblock')
    ob(QS, 3, 4, BA, [2, 3], T, 'barriers-a')
    ob(QS, 4, 3, BA, [2, 3], T, 'barriers-a')
    ob(QS, 4, 3, BB, [2, 3], T, 'barriers-b')
    ob(QS, 5, 3, BC, [3, 3], T, 'barriers-c')
    ob(QS, 4, 3, [2, 6, 7], [2, 3], T, 'barriers-gaps', pop=True)
    ob(QS, 4, 3, [2, 7], [2, 3], T, 'barriers-rev', rev=True)
    for part in ('scan', 'greedy'):
        ob([part], 3, 3, BA, [2, 3], T, 'barriers-a')
        ob([part], 3, 3, BB, [2, 3], T, 'barriers-b')
    ob(CL, 3, 3, BA, [2, 3], T, 'barriers-a')
    ob(CL, 4, 3, G, [3, 3], T, 'gates')
    ob(CL, 4, 3, [1, 2], [2, 2], T, 'gates')
    ob(CL, 3, 3, [1, 2], [2, 2], T, 'gates', points=2)
    ob(CL, 3, 3, G, [2, 2], T, 'widegate')
    ob(CL, 5, 3, [2], [2, 3], T, 'twoq')
    ob(CL, 3, 3, GB, [2, 3], T, 'blocked')
    ob(CL, 3, 3, [1, 2], [2, 3], T, 'gaps', pop=True)
    ob(QS, 4, 3, [1, 2, 4], [2, 3], T, 'then-extend', extend=[2, 3])
    ob(QS, 4, 3, [1, 2, 7, 11], [2, 2], T, 'then-extend', extend=[2, 3])
    ob(['single'], 4, 3, [1, 2, 4, 7], [1, 1], T, 'then-extend', extend=[2, 4])
    ob(['scan'], 4, 3, [1, 2], [2, 3], T, 'then-extend', extend=[2, 4])
    for lab in ('id', 'evens-odds', 'stride'):
        ring(6, lab, QSS, [2, 4], T)
        ring(5, lab, QSS, [2, 4], T)
        ring(4, lab, QSS + ['greedy'], [2, 3], T)
    flush(3, [2, 2], T)
    flush(2, [2, 4], T, base='triples')
    flush(4, [2, 2], T, barrier=True, variants=2)
    flush(5, [2, 3], T, barrier=True, variants=2, base='triples')
    return obs
