"""C02 - compile() output is executable on the target machine model.

Part A (this file, engine E1): MachineModel.is_compatible(circuit, placement) gives the same verdict as an
independent check of the three conditions of the statement:

  (1) width / radixes : the circuit fits on the machine (num_qudits <= model.num_qudits) and logical qudit i
                        has the radix of the physical qudit it is placed on (placement[i]; identity when no
                        placement is given);
  (2) gate set        : every gate of the circuit is in the model's gate set - measurement, barrier and
                        reset placeholders aside;
  (3) connectivity    : for every multi-qudit operation, every pair of its qudits is placed on two physical
                        qudits that are joined by an edge of the model's *undirected* coupling graph.

Symbolic: one boolean per pair of physical qudits (the model graph), the number of operations, each
operation's gate kind and location, the placement (None or any injective map, order reversing ones
included), radix of every physical / logical qudit in the radix shards. Everything is split at the harness
boundary (dict keys / indices inside BQSKit), then Circuit, MachineModel and is_compatible run natively.

Part B (workflow skeleton, engine E4) is appended to obligations() by PART_B once it exists.
"""
from __future__ import annotations

import itertools as it
from typing import Any

import bqskit.ir  # noqa: F401
from bqskit.compiler.machine import MachineModel
from bqskit.ir.circuit import Circuit
from bqskit.ir.gates import BarrierPlaceholder
from bqskit.ir.gates import CNOTGate
from bqskit.ir.gates import CZGate
from bqskit.ir.gates import HGate
from bqskit.ir.gates import MeasurementPlaceholder
from bqskit.ir.gates import Reset
from bqskit.ir.gates import ToffoliGate
from bqskit.ir.gates import U3Gate
from harness.c20_graph import Src, all_pairs, call
from vf import rt
from vf.circ_oracle import TG

PROPERTY = 'C02'
LEVEL = 'model_checking'
ENCODED = [
    'bqskit.compiler.machine:MachineModel.{__init__,is_compatible}',
    'bqskit.ir.circuit:Circuit.{append_gate,coupling_graph,gate_set,radixes,num_qudits}',
    'bqskit.compiler.gateset:GateSet.{__init__,__contains__}', 'bqskit.qis.graph:CouplingGraph.{__init__,__contains__}',
]
ASSUMPTIONS = [
    'part A: "width" in the presence of a placement means that the circuit fits (num_qudits <= model.num_qudits); '
    'a narrower circuit is compatible (tests/compiler/test_machine.py agrees)',
    'part A: placements are injective maps logical -> physical qudit (or None = identity)',
    'part A: placeholders are the one-qudit Reset, BarrierPlaceholder(1) and a one-qudit MeasurementPlaceholder; '
    'whether a multi-qudit barrier is subject to the connectivity condition is left open by the statement',
    'part A: in the mixed-radix shards gates are harness-tagged gates (identity = tag, arity, radixes); the model '
    'gate set holds the native tags for every radix combination',
]
BOUNDS = {
    'quick': 'part A: models with <=4 physical qudits (every graph), circuits with <=3 logical qudits and <=2 operations '
             '(2-/3-qudit, native and foreign gates, placeholders), every placement; radixes 2/3 on 3 physical / 2 '
             'logical qudits',
    'thorough': 'part A: models with <=5 physical qudits, circuits with <=4 logical qudits, <=2 operations (<=3 on 3 '
                'physical qudits), every placement; radixes 2/3 on 3 physical / 3 logical qudits',
}
OUTSIDE = ('part A: more than 5 physical / 4 logical qudits, more than 3 operations, multi-qudit placeholders, '
           'non-injective or too short placements; part B (that compile() output satisfies the three conditions) is '
           'the workflow-skeleton check')

NATIVE_TAGS = {21: 2, 31: 3, 11: 1}      # tag -> arity (mixed-radix shards)
FOREIGN_TAGS = {22: 2, 12: 1}

# kind -> (arity, native?, placeholder?)
KINDS = {
    'n2': (2, True, False), 'n3': (3, True, False), 'n1': (1, True, False),
    'x2': (2, False, False), 'x1': (1, False, False),
    'reset': (1, False, True), 'barrier': (1, False, True), 'measure': (1, False, True),
}
KINDSETS = {
    'native': ['n2', 'n3'],
    'mixed': ['n1', 'x1', 'n2', 'x2', 'n3'],
    'placeholder': ['n2', 'reset', 'barrier', 'measure'],
}


def gate_of(kind: str, rad: tuple | None) -> tuple[Any, list]:
    """(gate, params). rad = radixes of the gate's qudits for tagged gates, None = real qubit gates."""
    if kind == 'reset':
        return Reset(), []
    if kind == 'barrier':
        return BarrierPlaceholder(1), []
    if kind == 'measure':
        return MeasurementPlaceholder([('c', 1)], {0: ('c', 0)}), []
    if rad is None:
        g = {'n2': CNOTGate(), 'n3': ToffoliGate(), 'n1': U3Gate(), 'x2': CZGate(), 'x1': HGate()}[kind]
        return g, [0.0] * g.num_params
    tag = {'n2': 21, 'n3': 31, 'n1': 11, 'x2': 22, 'x1': 12}[kind]
    return TG(tag, len(rad), rad), []


def model_gates(radix: bool) -> list:
    if not radix:
        return [CNOTGate(), ToffoliGate(), U3Gate()]
    out = []
    for tag, ar in NATIVE_TAGS.items():
        for rad in it.product((2, 3), repeat=ar):
            out.append(TG(tag, ar, rad))
    return out


def reference(nm: int, medges: list, mrad: list, W: int, crad: list, ops: list, pl: list | None) -> bool:
    if W > nm:
        return False
    p = pl if pl is not None else list(range(W))
    for i in range(W):
        if crad[i] != mrad[p[i]]:
            return False
    coupled = {frozenset(e) for e in medges}
    for kind, loc in ops:
        _, native, placeholder = KINDS[kind]
        if not native and not placeholder:
            return False
        for a, b in it.combinations(loc, 2):
            if frozenset((p[a], p[b])) not in coupled:
                return False
    return True


def chk_compat(nm: int, medges: list, mrad: list, W: int, crad: list, ops: list, pl: list | None,
               radix: bool) -> str | None:
    model, e = call(MachineModel, nm, list(medges), model_gates(radix), list(mrad))
    if e is not None:
        rt.log('MachineModel raised', repr(e))
        return 'MachineModel:raised:' + type(e).__name__

    def mkcirc() -> Circuit:
        c = Circuit(W, list(crad))
        for kind, loc in ops:
            g, params = gate_of(kind, tuple(crad[q] for q in loc) if radix else None)
            c.append_gate(g, list(loc), params)
        return c
    circ, e = call(mkcirc)
    if e is not None:
        rt.log('circuit construction raised', repr(e))
        return 'Circuit:raised:' + type(e).__name__
    v, e = call(model.is_compatible, circ) if pl is None else call(model.is_compatible, circ, list(pl))
    want = reference(nm, medges, mrad, W, crad, ops, pl)
    if rt.CONCRETE:
        rt.log('model: %d qudits radixes %r edges %r gate set %r' % (nm, mrad, medges, model.gate_set))
        rt.log('circuit: %d qudits radixes %r ops %r' % (W, crad, [(op.gate, tuple(op.location)) for op in circ]))
        rt.log('placement', pl, '-> is_compatible =', v if e is None else 'raised %r' % (e,), '| reference =', want)
    if e is not None:
        return 'is_compatible:raised:' + type(e).__name__
    if v is want:
        return None
    if v is True:
        return 'is_compatible:accepts-incompatible'
    if v is not False:
        return 'is_compatible:not-a-bool'
    if any(KINDS[k][2] for k, _ in ops):
        return 'is_compatible:rejects-placeholder'
    p = pl if pl is not None else list(range(W))
    if any(p[a] > p[b] for _, loc in ops for a, b in it.combinations(sorted(loc), 2)):
        return 'is_compatible:rejects-coupled-pair-under-order-reversing-placement'
    return 'is_compatible:rejects-compatible'


@rt.natively
def part_a(bits: list, ints: list) -> bool:
    rt.begin()
    S = rt.SHARD
    s = Src(bits, ints)
    nm = S['nm']
    medges = [p for p in all_pairs(nm) if s.bit()]
    W = s.int(S['Wlo'], S['Whi'])
    radix = bool(S.get('radix'))
    mrad = [3 if radix and s.bit() else 2 for _ in range(nm)]
    crad = [3 if radix and s.bit() else 2 for _ in range(W)]
    kinds = [k for k in KINDSETS[S['gates']] if KINDS[k][0] <= W]
    ops = []
    nops = s.int(0, S['nops']) if kinds else 0
    for _ in range(nops):
        kind = kinds[s.int(0, len(kinds) - 1)]
        ar = KINDS[kind][0]
        if S.get('sorted', True):
            subs = list(it.combinations(range(W), ar))
            loc = list(subs[s.int(0, len(subs) - 1)])
        else:
            loc = s.location(W, ar)
        ops.append((kind, loc))
    pl = None
    if S['pl'] in ('any', 'mono') and W <= nm and s.int(0, 1) == 1:
        pl = s.location(nm, W) if S['pl'] == 'any' else s.increasing(W, nm - 1)
    fp = rt.nt(chk_compat, nm, medges, mrad, W, crad, ops, pl, radix)
    rt.reach()
    if fp is None:
        return True
    return rt.fail(fp)


def c02_a(b0: bool, b1: bool, b2: bool, b3: bool, b4: bool, b5: bool, b6: bool, b7: bool, b8: bool, b9: bool,
          b10: bool, b11: bool, b12: bool, b13: bool, b14: bool, b15: bool,
          x0: int, x1: int, x2: int, x3: int, x4: int, x5: int, x6: int, x7: int, x8: int, x9: int,
          x10: int, x11: int, x12: int, x13: int, x14: int, x15: int, x16: int, x17: int) -> bool:
    """
    post: _
    """
    return part_a([b0, b1, b2, b3, b4, b5, b6, b7, b8, b9, b10, b11, b12, b13, b14, b15],
                  [x0, x1, x2, x3, x4, x5, x6, x7, x8, x9, x10, x11, x12, x13, x14, x15, x16, x17])


def PART_A(tier: str) -> list[dict]:
    obs: list[dict] = []
    T = 420 if tier == 'quick' else 2700

    def ob(split: int = 0, **S: Any) -> None:
        S.setdefault('Wlo', S['Whi'])
        tag = 'nm%d/W%d-%d/ops%d/%s/pl-%s%s%s' % (S['nm'], S['Wlo'], S['Whi'], S['nops'], S['gates'], S['pl'],
                                                  '' if S.get('sorted', True) else '/unsorted',
                                                  '/radix' if S.get('radix') else '')
        for fx in it.product((0, 1), repeat=split):
            sh = dict(S, fixed=list(fx)) if split else dict(S)
            obs.append({'name': 'A/%s%s' % (tag, '/fix' + ''.join(map(str, fx)) if split else ''),
                        'func': 'c02_a', 'shard': sh, 'timeout': T})

    # 'any'  : None or any injective placement (order reversing ones included)
    # 'mono' : None or any order preserving placement (pair look-ups stay normalised)
    ob(nm=3, Wlo=1, Whi=3, nops=2, gates='native', pl='any')
    ob(nm=3, Whi=3, nops=1, gates='native', pl='any', sorted=False)
    ob(nm=3, Whi=2, nops=1, gates='native', pl='any', radix=1)
    ob(nm=3, Wlo=1, Whi=3, nops=2, gates='native', pl='mono')
    ob(nm=3, Wlo=1, Whi=2, nops=2, gates='mixed', pl='mono')
    ob(nm=3, Wlo=1, Whi=2, nops=2, gates='placeholder', pl='none')
    ob(nm=3, Whi=2, nops=1, gates='native', pl='mono', radix=1)
    ob(nm=2, Whi=3, nops=1, gates='native', pl='none')
    if tier == 'quick':
        ob(nm=4, Wlo=1, Whi=2, nops=1, gates='native', pl='any')
        ob(2, nm=4, Whi=3, nops=1, gates='native', pl='any')
        ob(nm=4, Wlo=1, Whi=3, nops=1, gates='native', pl='mono')
    else:
        ob(3, nm=4, Wlo=1, Whi=3, nops=2, gates='native', pl='any')
        ob(2, nm=4, Whi=4, nops=1, gates='native', pl='any')
        ob(2, nm=4, Whi=3, nops=1, gates='native', pl='any', sorted=False)
        ob(3, nm=5, Whi=2, nops=1, gates='native', pl='any')
        ob(1, nm=4, Wlo=1, Whi=4, nops=2, gates='native', pl='mono')
        ob(2, nm=5, Wlo=1, Whi=3, nops=1, gates='native', pl='mono')
        ob(nm=3, Whi=3, nops=3, gates='native', pl='any')
        ob(nm=3, Whi=3, nops=2, gates='mixed', pl='any')
        ob(nm=3, Whi=3, nops=2, gates='placeholder', pl='any')
        ob(2, nm=3, Whi=3, nops=1, gates='native', pl='any', radix=1)
    return obs


PART_B: list = []      # callables tier -> list[dict]; part B appends its builder here


def obligations(tier: str) -> list[dict]:
    obs = PART_A(tier)
    for build in PART_B:
        obs += build(tier)
    return obs


# ---------------------------------------------------------------------------------------------
# Part B: compile() output on models with non-default gate sets (E4-lite, see harness/C01.py)
# ---------------------------------------------------------------------------------------------

GATESETS = {
    'u3+cx': ('U3Gate', 'CNOTGate'), 'rz+sx+cx': ('RZGate', 'SqrtXGate', 'CNOTGate'),
    'rz+rx+cz': ('RZGate', 'RXGate', 'CZGate'), 'u1+sx+cx': ('U1Gate', 'SqrtXGate', 'CNOTGate'),
    'u1+rx+cz': ('U1Gate', 'RXGate', 'CZGate'),
}


def compiled(g0: int, a0: int, b0: int, g1: int, a1: int, b1: int, g2: int, a2: int, b2: int, gs: int, lv: int) -> bool:
    """
    post: _
    """
    import harness.C01 as c01
    rt.begin()
    S = rt.SHARD
    n, m, nops = S['n'], S['m'], S['nops']
    names = S['gatesets']
    gsname = names[rt.P(gs, 0, len(names) - 1)]
    level = S['levels'][rt.P(lv, 0, len(S['levels']) - 1)]
    ent = 'cz' if 'cz' in gsname else 'cx'
    kinds = [ent, 'u3', 'h']
    ops = []
    if 'fixed_ops' in S:
        # fixed operations (entangler on the listed pairs), SYMBOLIC coupling graph: g0.. are edge bits over all pairs
        ops = [(ent, list(loc)) for loc in S['fixed_ops']]
        pairs = [(i, j) for i in range(m) for j in range(i + 1, m)]
        bits = [g0, a0, b0, g1, a1, b1, g2, a2, b2]
        edges = [pr for k, pr in enumerate(pairs) if rt.P(bits[k], 0, 1) == 1]
        if not c01.connected(m, edges):
            return True
    else:
        for (g, a, b) in [(g0, a0, b0), (g1, a1, b1), (g2, a2, b2)][:nops]:
            kind = kinds[rt.P(g, 0, len(kinds) - 1)]
            qa = rt.P(a, 0, n - 1)
            loc = [qa]
            if kind in ('cx', 'cz'):
                qb = rt.P(b, 0, n - 2)
                loc.append(qb if qb < qa else qb + 1)
            ops.append((kind, loc))
        edges = [tuple(e) for e in S['edges']]

    def run() -> Any:
        import bqskit.ir.gates as G
        from bqskit.compiler.gateset import GateSet
        inp, model, reason, res, errs = c01.run_compile(n, ops, [], m, edges, level, {},
                                                        gate_set=GateSet({getattr(G, x)() for x in GATESETS[gsname]}))
        if reason != 'quiescent' or errs or res is None:
            return 'runtime-did-not-finish', inp, res
        if res[0] != 'ok':
            lines = [ln.strip() for ln in str(res[2]).split('\n') if 'Error' in ln and ':' in ln]
            return 'compile-raised:%s' % ((lines[-1] if lines else str(res[1]))[:90]), inp, res
        fp = c01.judge(inp, model, res[1], [])
        if fp is not None:
            return fp, inp, res
        bad = c01.submodel_violations()
        if bad:
            rt.log('sub-model handed to a leaf pass is not faithful to the physical graph:', bad[:3])
            return 'foreach-submodel-edge-not-physical', inp, res
        out = res[1][0]
        allowed = set(GATESETS[gsname])
        for op in out:
            if op.num_qudits == 1 and type(op.gate).__name__ not in allowed:
                return 'non-native-single-qudit-gate:%s:%s' % (gsname, type(op.gate).__name__), inp, res
        # multi-qudit nativeness is only asserted when the optimiser stubs had nothing to do: no swaps were needed
        multi = {type(op.gate).__name__ for op in out if op.num_qudits > 1}
        if multi <= allowed and not model.is_compatible(out):
            return 'is_compatible-false-on-native-output', inp, res
        return None, inp, res
    fp, inp, res = rt.nt(run)
    if fp is not None and fp.startswith('compile-raised:'):
        # C02 speaks about circuits that compile() RETURNS; a compile() that raises on an accepted input is C01's
        # subject (where "Coupling graph is not fully connected." is a listed finding). Not counted as reached.
        if rt.CONCRETE:
            rt.log('compile() raised - outside C02 (no circuit returned):', fp)
        return True
    rt.reach()
    if rt.CONCRETE:
        rt.log('gate set', gsname, 'level', level, 'input', repr(inp))
        rt.log('result', repr(res)[:1200])
    if fp is not None:
        return rt.fail(fp)
    return True


def _part_b(tier: str) -> list[dict]:
    obs = []
    line3 = [[0, 1], [1, 2]]
    if tier == 'quick':
        obs.append({'name': 'B/compile/n2m3/ops2/line', 'func': 'compiled', 'timeout': 300,
                    'shard': {'n': 2, 'm': 3, 'nops': 2, 'edges': line3, 'levels': [1],
                              'gatesets': ['rz+rx+cz', 'u1+sx+cx', 'rz+sx+cx', 'u1+rx+cz']}})
        # three entanglers on all pairs of 3 logical qubits, EVERY connected 4-qubit coupling graph, level 3 (blocks are
        # re-synthesised after mapping: the sub-model handed to each block must be the physical one)
        obs.append({'name': 'B/compile/n3m4/allpairs/every-graph/level3', 'func': 'compiled', 'timeout': 400,
                    'shard': {'n': 3, 'm': 4, 'nops': 3, 'fixed_ops': [[0, 1], [1, 2], [0, 2]], 'levels': [3],
                              'gatesets': ['u3+cx']}})
    else:
        for gsn in GATESETS:
            obs.append({'name': 'B/compile/n3m3/ops3/line/%s' % gsn, 'func': 'compiled', 'timeout': 1500,
                        'shard': {'n': 3, 'm': 3, 'nops': 3, 'edges': line3, 'levels': [1, 2], 'gatesets': [gsn]}})
            obs.append({'name': 'B/compile/n2m3/ops2/star/%s' % gsn, 'func': 'compiled', 'timeout': 1500,
                        'shard': {'n': 2, 'm': 3, 'nops': 2, 'edges': [[0, 2], [1, 2]], 'levels': [1, 2, 3],
                                  'gatesets': [gsn]}})
    return obs


PART_B.append(_part_b)
