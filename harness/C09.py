"""C09 - placement, layout and routing preserve the program and respect the coupling.

One path = one connected machine graph (symbolic edge bits, split) and one circuit of
tagged operations (symbolic kinds/locations, split).  On that input the REAL workflow
    [SetModelPass, <placement pass>, GeneralizedSabreLayoutPass, GeneralizedSabreRoutingPass,
     ApplyPlacement]
is run natively for every algorithm configuration listed in the shard and the result is
judged by the *wire oracle* written below (independent of the code under test).

A second family forces the local-minimum escape of GeneralizedSabreAlgorithm
(`len(leading_swaps) > 5 * n` -> backtrack -> uphill swaps) by replacing `_get_best_swap`
with a solver-chosen element of the real candidate set `_obtain_swaps(...)`.

A third family runs the permutation-aware passes [SetModelPass, placement, PAMLayoutPass,
PAMRoutingPass, ApplyPlacement] with harness-injected tagged (pre, circuit, post) triples in
the block data (see PG / inject_perm_data); the wire oracle then relabels the wires of such a
block according to the contract of EmbedAllPermutationsPass.
"""
from __future__ import annotations

import sys
import warnings
from typing import Any

from bqskit.compiler.machine import MachineModel
from bqskit.compiler.passdata import PassData
from bqskit.ir.circuit import Circuit
from bqskit.ir.gates.barrier import BarrierPlaceholder
from bqskit.ir.gates.circuitgate import CircuitGate
from bqskit.ir.gates.constant.swap import SwapGate
from bqskit.ir.gate import Gate
from bqskit.passes.control.foreach import ForEachBlockPass
from bqskit.passes.mapping.apply import ApplyPlacement
from bqskit.passes.mapping.layout.pam import PAMLayoutPass
from bqskit.passes.mapping.layout.sabre import GeneralizedSabreLayoutPass
from bqskit.passes.mapping.placement import static as _static_mod
from bqskit.passes.mapping.placement.greedy import GreedyPlacementPass
from bqskit.passes.mapping.placement.static import StaticPlacementPass
from bqskit.passes.mapping.placement.trivial import TrivialPlacementPass
from bqskit.passes.mapping.routing.pam import PAMRoutingPass
from bqskit.passes.mapping.routing.sabre import GeneralizedSabreRoutingPass
from bqskit.passes.mapping.setmodel import SetModelPass
from bqskit.qis.graph import CouplingGraph
from bqskit.qis.unitary.unitarymatrix import UnitaryMatrix
from vf import rt
from vf.circ_oracle import TG, _flat_op, flat_of

PROPERTY = 'C09'
LEVEL = 'model_checking'
ENCODED = [
    'bqskit.passes.mapping.sabre:GeneralizedSabreAlgorithm.{forward_pass,backward_pass,_can_exe,'
    '_calc_extended_set,_get_best_swap,_obtain_swaps,_score_swap,_apply_swap,_get_distance,_uphill_swaps,'
    '_apply_perm}',
    'bqskit.passes.mapping.layout.sabre:GeneralizedSabreLayoutPass.run',
    'bqskit.passes.mapping.routing.sabre:GeneralizedSabreRoutingPass.run',
    'bqskit.passes.mapping.pam:PermutationAwareMappingAlgorithm.{forward_pass,_get_best_perm,_score_perm,'
    '_global_to_local_perm}',
    'bqskit.passes.mapping.layout.pam:PAMLayoutPass.run', 'bqskit.passes.mapping.routing.pam:PAMRoutingPass.run',
    'bqskit.passes.mapping.placement.greedy:GreedyPlacementPass.run',
    'bqskit.passes.mapping.placement.trivial:TrivialPlacementPass.run',
    'bqskit.passes.mapping.placement.static:StaticPlacementPass.{run,find_monomorphic_subgraph,'
    '_find_monomorphic_subgraph}',
    'bqskit.passes.mapping.setmodel:SetModelPass.run', 'bqskit.passes.mapping.apply:ApplyPlacement.run',
    'bqskit.compiler.passdata:PassData.{__init__,placement,initial_mapping,final_mapping,connectivity,model}',
    'bqskit.qis.graph:CouplingGraph.{__init__,get_subgraph,is_fully_connected,all_pairs_shortest_path,'
    'get_shortest_path_tree,get_neighbors_of,get_qudit_degrees,__eq__,__hash__}',
    'bqskit.ir.circuit:Circuit.{front,rear,next,prev,append_gate,append_circuit,pop,become,copy}',
]
ASSUMPTIONS = [
    'gates are harness-tagged gates (vf.circ_oracle.TG, arity 1-3, one real parameter each, qubits) without '
    'numerics, BarrierPlaceholder, and CircuitGate blocks of tagged gates; identity of an operation = tag',
    'pass coroutines are driven inline with coro.send(None); none of the passes under test awaits the runtime '
    '(an await would be reported as a violation "raised AssertionError"), so no runtime stub is involved',
    'the module global `time` of placement/static.py is replaced by a constant clock (the 10 s search timeout of '
    'StaticPlacementPass never fires; the search is exhaustive on <=5 qudits)',
    'SABRE/PAM use no random numbers; their tie-breaks are iteration orders of sets of int tuples, which are '
    'deterministic (PYTHONHASHSEED=0 and int hashing) and executed as they are',
    'accepted refusals (not violations): RuntimeError of TrivialPlacementPass when qudits 0..n-1 are disconnected '
    '(independently recomputed); RuntimeError "disconnected qudits" of the layout pass after StaticPlacementPass '
    'produced a disconnected placement (happens when the circuit\'s interaction graph is disconnected; '
    'independently recomputed; shard key strict_static=1 turns it into a violation); any other exception is a '
    'violation',
    'connectivity is demanded of every operation on >=2 qudits except BarrierPlaceholder and CircuitGate blocks '
    'that contain only single-qudit gates (no physical multi-qudit interaction)',
    'escape obligations: `_get_best_swap` is replaced by a solver-chosen element of the real '
    '`_obtain_swaps(...)` candidate set for the first 24 decisions of the named phase (over-approximates the '
    'scoring heuristic; a shard may pin a prefix of the choices to candidate 0), afterwards the real heuristic '
    'decides; a separate concrete witness obligation shows that the backtrack+uphill branch is entered',
    'algorithm parameters (placement pass, total_passes, extended_set_size, decay_delta, decay_reset_interval, '
    'gate_count_weight, layout on/off) are enumerated concretely inside each path from the list in the shard',
    'PAM: the pre-synthesised permutation data normally produced by QuickPartitioner + ForEachBlockPass('
    'EmbedAllPermutationsPass) (numerical synthesis) is injected by the harness: for every operation, every '
    'connected local graph and every (pre, post) pair a tagged stand-in circuit whose meaning is the contract of '
    'embed.py (unitary Po^T.U.Pi, PermutationMatrix.from_qudit_location convention, confirmed numerically once); '
    'operations have sorted locations as blocks made by the partitioners do (PAM\'s permutation arithmetic '
    'silently assumes it); tagged gates return an identity matrix from get_unitary because PAMRoutingPass stores '
    'op.get_unitary() in its out-data',
]
BOUNDS = {
    'quick': 'SABRE: n<=4 logical qudits on every connected labelled graph with m<=4 physical qudits (4 graphs '
             'on 3, 38 on 4 vertices; trees only where the obligation name says maxe3; the 4-line for 3 '
             'operations on 4 logical qudits), circuits of exactly 1-3 operations from the menu in the obligation '
             'name (1: 1-qudit, 2: 2-qudit ordered, 3: 3-qudit ordered, 4/7: barriers, 5/6: CircuitGate blocks), '
             '12 parameter configurations per input (3 placement passes x {total_passes 1/2, extended set 0/1/20, '
             'decay 0/0.001/0.5} + routing without layout + two configurations that start from NON-identity recorded initial/final '
             'mappings, which mapping must compose with). Escape path: one gate on the 4-line, 24 symbolic swap '
             'choices (first 6 pinned; 13 pinned for the 3-qudit gate) in routing-forward and layout-backward. '
             'PAM: n<=4, m<=4, 2-3 operations with sorted locations, 6 configurations, all (pre,post) pairs on all '
             'connected local graphs; PAM escape with 6 pinned choices',
    'thorough': 'SABRE: n<=4 logical, m<=5 physical (all 728 connected labelled graphs on 5 vertices for 1-2 '
                'operations, trees / the 4-line / the 5-line for 3-4 operations), <=4 operations, 45 parameter '
                'configurations; escape path with the complete 24-choice tree for 6 gate locations in '
                'routing-forward, 3 in layout-forward, 3 two-gate circuits in layout-backward, 3-qudit gates with 9-11 '
                'pinned choices; PAM: n<=4, m<=5, <=3 operations, 42 configurations, escape in routing and layout',
}
OUTSIDE = ('machines with more than 5 qudits and circuits with more than 4 operations / 4 logical qudits; radix != 2 '
           '(the code refuses hybrid radix); the numerical producers of PAM data (embed.py, topology.py '
           'sub-topology selection, synthesis) and PAMVerificationSequence (verify.py); PAM on operations with '
           'unsorted locations (not produced by the partitioners; PAM mis-books them); natural (heuristic-driven) '
           'local minima, which need >= 13 qudits - the escape path is reached through the symbolic swap choice '
           'instead; quality of the layout (only correctness is checked)')

# ----------------------------------------------------------------------------------------
# deterministic clock for StaticPlacementPass (module global `time` of static.py)


class _Clock:
    @staticmethod
    def time() -> float:
        return 0.0


_static_mod.time = _Clock  # type: ignore

warnings.simplefilter('ignore', DeprecationWarning)

# ----------------------------------------------------------------------------------------
# native execution: like rt.nt, but additionally switches CrossHair's per-instruction
# sys.monitoring callback off while the (fully concrete) real code runs (~8x faster than
# NoTracing alone on CPython 3.12, where the disabled tracer is still called per opcode).

_FAST = [0]


def fnt(fn: Any, *a: Any) -> Any:
    if rt.CONCRETE:
        return fn(*a)
    from crosshair.tracers import SYS_MONITORING_TOOL_ID as TID
    from crosshair.tracers import NoTracing, is_tracing
    if not is_tracing():
        return fn(*a)
    with NoTracing():
        if rt.SHARD.get('nofast'):
            return fn(*a)
        sys.monitoring.set_events(TID, 0)
        _FAST[0] += 1
        try:
            return fn(*a)
        finally:
            _FAST[0] -= 1
            sys.monitoring.set_events(TID, sys.monitoring.events.INSTRUCTION)


def sym_pick(x: Any, lo: int, hi: int) -> int:
    """rt.P on a symbolic int from inside natively running code (tracing resumed for the ladder)."""
    if rt.CONCRETE:
        return rt.P(x, lo, hi)
    from crosshair.tracers import SYS_MONITORING_TOOL_ID as TID
    from crosshair.tracers import ResumedTracing, is_tracing
    if is_tracing():
        return rt.P(x, lo, hi)
    fast = _FAST[0] > 0
    if fast:
        sys.monitoring.set_events(TID, sys.monitoring.events.INSTRUCTION)
    try:
        with ResumedTracing():
            return rt.P(x, lo, hi)
    finally:
        if fast:
            sys.monitoring.set_events(TID, 0)


# ----------------------------------------------------------------------------------------
# independent graph helpers (textbook BFS; nothing of bqskit.qis.graph is used by the oracle)


def adjacency(m: int, edges: list) -> list[set]:
    adj: list[set] = [set() for _ in range(m)]
    for a, b in edges:
        adj[a].add(b)
        adj[b].add(a)
    return adj


def induced_connected(qs: list, adj: list[set]) -> bool:
    qs = list(qs)
    if not qs:
        return True
    inside = set(qs)
    seen = {qs[0]}
    todo = [qs[0]]
    while todo:
        v = todo.pop()
        for w in adj[v]:
            if w in inside and w not in seen:
                seen.add(w)
                todo.append(w)
    return len(seen) == len(inside)


def injective_into(xs: Any, k: int, m: int) -> bool:
    xs = list(xs)
    return len(xs) == k and all(isinstance(x, int) and 0 <= x < m for x in xs) and len(set(xs)) == k


# ----------------------------------------------------------------------------------------
# the wire oracle


class NTG(TG):
    """Tagged gate for the PAM obligations: PAMRoutingPass stores `op.get_unitary()` of every routed
    block in its out-data (never used by the passes under test), so the tag needs *a* matrix: identity."""

    def get_unitary(self, params: Any = []) -> Any:
        return UnitaryMatrix.identity(2 ** self._num_qudits, [2] * self._num_qudits)


class PG(Gate):
    """Harness stand-in for one pre-synthesised permutation-aware version of the input operation `orig`.

    Contract taken from the producer EmbedAllPermutationsPass (embed.py): the circuit stored under the key
    (pre, post) for local graph `gedges` has the unitary  Po^T . U . Pi  with Pi/Po =
    PermutationMatrix.from_qudit_location(k, r, pre/post) ("output position i holds input wire loc[i]"), i.e.
    the qudit entering on block wire pre[j] is acted on as U's j-th qudit and leaves on block wire post[j];
    the circuit only couples block wires joined by an edge of `gedges`."""

    def __init__(self, orig: int, k: int, pre: tuple, post: tuple, gedges: tuple, nparams: int) -> None:
        self.orig, self.pre, self.post, self.gedges = orig, tuple(pre), tuple(post), tuple(gedges)
        self._num_qudits = k
        self._radixes = tuple([2] * k)
        self._num_params = nparams
        self._name = 'P%d%s%s' % (orig, ''.join(map(str, pre)), ''.join(map(str, post)))
        self._qasm_name = 'p%d' % orig

    def get_unitary(self, params: Any = []) -> Any:
        return UnitaryMatrix.identity(2 ** self._num_qudits, [2] * self._num_qudits)

    def _key(self) -> tuple:
        return (self.orig, self._num_qudits, self.pre, self.post, self.gedges, self._num_params)

    def __eq__(self, o: object) -> bool:
        return isinstance(o, PG) and o._key() == self._key()

    def __hash__(self) -> int:
        return hash(('PG',) + self._key())

    def __repr__(self) -> str:
        return self._name


def permuted_block(op: Any) -> tuple | None:
    """(PG gate, params, physical qudit of every PG slot) when `op` is one of the injected permuted
    versions (bare or wrapped in a CircuitGate by PAM's append_circuit(..., as_circuit_gate=True))."""
    g = op.gate
    loc = [int(q) for q in op.location]
    if isinstance(g, PG):
        return g, tuple(op.params), loc
    if isinstance(g, CircuitGate):
        inner = list(g._circuit)
        if len(inner) == 1 and isinstance(inner[0].gate, PG):
            iop = inner[0]
            return iop.gate, tuple(op.params), [loc[w] for w in iop.location]
    return None


def exempt_from_coupling(op: Any) -> bool:
    g = op.gate
    if isinstance(g, BarrierPlaceholder):
        return True
    if isinstance(g, CircuitGate):
        return all(o.num_qudits == 1 for o in g._circuit)
    return False


def wire_check(inp: tuple, out: Circuit, init: list, final: list, m: int, adj: list[set]) -> str | None:
    """Returns None when `out` (m physical qudits, coupling `adj`) is the input program
    `inp` (per-logical-qudit timelines) entering at `init` and leaving at `final`."""
    n = len(inp)
    if out.num_qudits != m or tuple(out.radixes) != (2,) * m:
        return 'width'
    if not injective_into(init, n, m):
        return 'initial-mapping-not-injective'
    if not injective_into(final, n, m):
        return 'final-mapping-not-injective'
    lab: list = [None] * m          # physical -> logical
    for i, p in enumerate(init):
        lab[p] = i
    pos = [0] * n
    for op in out:
        loc = [int(q) for q in op.location]
        if isinstance(op.gate, SwapGate):
            if len(loc) != 2 or loc[1] not in adj[loc[0]]:
                rt.log('swap off the coupling graph:', op)
                return 'swap-off-edge'
            lab[loc[0]], lab[loc[1]] = lab[loc[1]], lab[loc[0]]
            continue
        pb = permuted_block(op)
        if pb is not None:
            pg, params, slots = pb
            for a, b in pg.gedges:
                if slots[b] not in adj[slots[a]]:
                    rt.log('permuted block synthesised for graph', pg.gedges, 'placed on', slots, ':', op)
                    return 'op-disconnected'
            if len(slots) >= 2 and not induced_connected(slots, adj):
                return 'op-disconnected'
            moved = []
            for j in range(len(slots)):
                lg = lab[slots[pg.pre[j]]]
                if lg is None:
                    rt.log('permuted block on a physical qudit holding no logical qudit:', op)
                    return 'op-on-empty-qudit'
                ent = ((pg.orig, j, params),)
                if tuple(inp[lg][pos[lg]:pos[lg] + 1]) != ent:
                    rt.log('logical qudit', lg, 'expects', inp[lg][pos[lg]:pos[lg] + 1], 'got', ent, 'from', op,
                           'pre', pg.pre, 'post', pg.post)
                    return 'program-order'
                pos[lg] += 1
                moved.append(lg)
            for j, lg in enumerate(moved):
                lab[slots[pg.post[j]]] = lg
            continue
        if len(loc) >= 2 and not exempt_from_coupling(op) and not induced_connected(loc, adj):
            rt.log('operation on physically disconnected qudits:', op)
            return 'op-disconnected'
        for j, p in enumerate(loc):
            lg = lab[p]
            if lg is None:
                rt.log('operation on a physical qudit holding no logical qudit:', op)
                return 'op-on-empty-qudit'
            ent = tuple(_flat_op(op, j))
            if tuple(inp[lg][pos[lg]:pos[lg] + len(ent)]) != ent:
                rt.log('logical qudit', lg, 'expects', inp[lg][pos[lg]:pos[lg] + len(ent)], 'got', ent, 'from', op)
                return 'barrier-misplaced' if isinstance(op.gate, BarrierPlaceholder) else 'program-order'
            pos[lg] += len(ent)
    for lg in range(n):
        if pos[lg] != len(inp[lg]):
            rt.log('logical qudit', lg, 'lost operations', inp[lg][pos[lg]:])
            return 'op-lost'
    for i, p in enumerate(final):
        if lab[p] != i:
            rt.log('logical', i, 'recorded on physical', p, 'but that qudit holds', lab[p], '| labels', lab)
            return 'final-mapping'
    return None


# ----------------------------------------------------------------------------------------
# driving the real passes


def drive(p: Any, circ: Circuit, data: PassData) -> None:
    co = p.run(circ, data)
    try:
        co.send(None)
    except StopIteration:
        return
    co.close()
    raise AssertionError('pass %s awaited the runtime' % type(p).__name__)


class Choices:
    """Solver-chosen swaps for the escape obligations (reset on every path)."""
    xs: list = []
    i = 0
    escapes = 0
    taken: list = []
    ncands: list = []
    phase = ''
    active: tuple = ()


class _ChoiceMixin:
    """Symbolic swap choice, active in the phases named by cfg['sym'] ('routing', 'fwd', 'bwd')."""
    _phase_prefix = ''

    def forward_pass(self, *a, **k):  # type: ignore
        Choices.phase = self._phase_prefix + 'fwd'
        try:
            return super().forward_pass(*a, **k)  # type: ignore
        finally:
            Choices.phase = ''

    def backward_pass(self, *a, **k):  # type: ignore
        Choices.phase = self._phase_prefix + 'bwd'
        try:
            return super().backward_pass(*a, **k)  # type: ignore
        finally:
            Choices.phase = ''

    def _get_best_swap(self, circuit, F, E, D, cg, pi, decay):  # type: ignore
        if Choices.i >= len(Choices.xs) or Choices.phase not in Choices.active:
            return super()._get_best_swap(circuit, F, E, D, cg, pi, decay)  # type: ignore
        cands = sorted(self._obtain_swaps(circuit, F, pi, cg))  # type: ignore
        x = Choices.xs[Choices.i]
        Choices.i += 1
        k = sym_pick(x, 0, len(cands) - 1)
        Choices.ncands.append(len(cands))
        Choices.taken.append(cands[k])
        return cands[k]

    def _uphill_swaps(self, logical_qudits, cg, pi, D):  # type: ignore
        Choices.escapes += 1
        return super()._uphill_swaps(logical_qudits, cg, pi, D)  # type: ignore


class ChoiceLayout(_ChoiceMixin, GeneralizedSabreLayoutPass):
    _phase_prefix = 'layout-'


class ChoiceRouting(_ChoiceMixin, GeneralizedSabreRoutingPass):
    _phase_prefix = 'routing-'


class ChoicePAMLayout(_ChoiceMixin, PAMLayoutPass):
    _phase_prefix = 'layout-'


class ChoicePAMRouting(_ChoiceMixin, PAMRoutingPass):
    _phase_prefix = 'routing-'


def run_cfg(circ_in: Circuit, inp: tuple, m: int, edges: list, adj: list[set], cfg: dict) -> str | None:
    """One run of the workflow; returns a fingerprint on violation."""
    n = circ_in.num_qudits
    circ = circ_in.copy()
    data = PassData(circ)
    model = MachineModel(m, CouplingGraph(edges, m))
    pl = cfg['pl']
    # 'premap': the circuit arrives from an earlier mapping-aware stage (a previous mapping round after ApplyPlacement,
    # or permutation-aware synthesis) that already recorded NON-identity mappings: logical qudit i of the original
    # program enters on wire pre_i[i] and leaves on wire pre_f[i] of this circuit. Mapping must COMPOSE with them.
    pre_i = pre_f = list(range(n))
    if cfg.get('premap'):
        ps = [q for q in perms_of(n) if list(q) != list(range(n))]
        if ps:
            pre_f = list(ps[(cfg['premap'] - 1) % len(ps)])
            pre_i = list(ps[(cfg['premap'] * 2) % len(ps)]) if cfg.get('premap_init') else pre_i
            data.initial_mapping = list(pre_i)
            data.final_mapping = list(pre_f)

    def eff(mapping: list, pre: list) -> list:
        """Where WIRE w of the circuit handed to the mapping passes enters / leaves, from the mapping recorded per logical qudit."""
        if len(mapping) != len(pre):
            return list(mapping)
        inv = {v: k for k, v in enumerate(pre)}
        return [mapping[inv[w]] for w in range(len(pre))]
    kw = dict(decay_delta=float(cfg.get('decay', 0.001)), decay_reset_interval=int(cfg.get('dri', 5)),
              extended_set_size=int(cfg.get('ext', 20)), decay_reset_on_gate=bool(cfg.get('drog', True)))
    sym = cfg.get('sym', '')         # 'routing-fwd' | 'layout-fwd' | 'layout-bwd' (comma separated)
    Choices.active = tuple(x for x in sym.split(',') if x)
    LayoutCls = ChoiceLayout if 'layout' in sym else GeneralizedSabreLayoutPass
    RoutingCls = ChoiceRouting if 'routing' in sym else GeneralizedSabreRoutingPass
    stage = 'setmodel'
    try:
        drive(SetModelPass(model), circ, data)
        stage = 'placement'
        first_n_connected = induced_connected(list(range(n)), adj)
        try:
            drive({'greedy': GreedyPlacementPass, 'trivial': TrivialPlacementPass,
                   'static': StaticPlacementPass}[pl](), circ, data)
        except RuntimeError as e:
            if pl == 'trivial' and not first_n_connected:
                return None         # documented refusal
            rt.log('placement pass raised', repr(e))
            return 'placement:raised:' + type(e).__name__
        placement0 = list(data.placement)
        if not injective_into(placement0, n, m):
            rt.log('placement', placement0)
            return 'placement:not-injective'
        pl_conn = induced_connected(placement0, adj)
        if not pl_conn and pl != 'static':
            rt.log('placement', placement0)
            return 'placement:disconnected'
        if not pl_conn:
            rt.log('note: StaticPlacementPass left a disconnected placement', placement0)
            if rt.SHARD.get('strict_static'):
                return 'placement:static-disconnected'
        if cfg.get('layout', True):
            stage = 'layout'
            try:
                drive(LayoutCls(total_passes=int(cfg.get('tp', 1)), **kw), circ, data)
            except RuntimeError as e:
                if not pl_conn and 'disconnected' in str(e):
                    return None     # refusal after a disconnected static placement
                raise
            if not pl_conn:
                return 'layout:accepted-disconnected-placement'
            if flat_of(circ) != inp or circ.num_qudits != n:
                return 'layout:modified-circuit'
            if sorted(data.placement) != sorted(placement0) or not injective_into(data.placement, n, m):
                rt.log('placement before', placement0, 'after layout', data.placement)
                return 'layout:placement-not-a-permutation'
            if list(data.initial_mapping) != pre_i or list(data.final_mapping) != pre_f:
                return 'layout:touched-mappings'
        elif not pl_conn:
            return None
        placement1 = list(data.placement)
        stage = 'routing'
        drive(RoutingCls(**kw), circ, data)
        if list(data.placement) != placement1:
            return 'routing:changed-placement'
        ladj = adjacency(n, [(a, b) for a in range(n) for b in range(a + 1, n)
                             if placement1[b] in adj[placement1[a]]])
        fp = wire_check(inp, circ, eff(list(data.initial_mapping), pre_i), eff(list(data.final_mapping), pre_f), n, ladj)
        if fp is not None:
            rt.log('after routing:', list(circ), 'placement', placement1, 'initial', data.initial_mapping,
                   'final', data.final_mapping)
            return 'routing:' + fp
        stage = 'apply'
        drive(ApplyPlacement(), circ, data)
        fp = wire_check(inp, circ, eff(list(data.initial_mapping), pre_i), eff(list(data.final_mapping), pre_f), m, adj)
        if fp is None and not (injective_into(data.placement, len(data.placement), m)
                               and induced_connected(list(data.placement), adj)):
            fp = 'placement-disconnected'
        if fp is not None:
            rt.log('after ApplyPlacement:', list(circ), 'placement(after layout)', placement1, 'initial',
                   data.initial_mapping, 'final', data.final_mapping, 'placement', data.placement)
            return 'apply:' + fp
    except Exception as e:  # noqa
        rt.log('stage', stage, 'raised', repr(e))
        return '%s:raised:%s' % (stage, type(e).__name__)
    return None


_INJ_CACHE: dict = {}


def connected_graphs(k: int) -> list:
    """Edge lists of all connected labelled graphs on k vertices (k <= 3 here)."""
    pairs = [(i, j) for i in range(k) for j in range(i + 1, k)]
    out = []
    for mask in range(1 << len(pairs)):
        edges = [pr for b, pr in enumerate(pairs) if (mask >> b) & 1]
        if induced_connected(list(range(k)), adjacency(k, edges)):
            out.append(edges)
    return out


def perms_of(k: int) -> list:
    import itertools
    return [tuple(p) for p in itertools.permutations(range(k))]


def inject_perm_data(circ: Circuit, data: PassData, mode: str) -> str | None:
    """What [QuickPartitioner, ForEachBlockPass(EmbedAllPermutationsPass)] leaves in the pass data, with
    tagged stand-ins (PG) instead of synthesised circuits: for every operation of the circuit, for every
    connected local graph, one circuit per (pre, post) pair of the mode ('in': post = id, 'out': pre = id,
    'both')."""
    if mode in _INJ_CACHE:
        data[ForEachBlockPass.key] = [list(_INJ_CACHE[mode])]
        return None
    blocks = []
    for cycle, op in circ.operations_with_cycles():
        g = op.gate
        if isinstance(g, BarrierPlaceholder):
            continue
        if not isinstance(g, NTG):
            return 'harness:unsupported-op'
        k = op.num_qudits
        ident = tuple(range(k))
        pd: dict = {}
        for gedges in connected_graphs(k):
            table = {}
            for pre in (perms_of(k) if mode in ('in', 'both') else [ident]):
                for post in (perms_of(k) if mode in ('out', 'both') else [ident]):
                    c = Circuit(k)
                    c.append_gate(PG(g.tag, k, pre, post, tuple(gedges), g.num_params), list(range(k)), op.params)
                    table[(pre, post)] = c
            pd[CouplingGraph(gedges, k)] = table
        blocks.append({'point': (cycle, op.location[0]), 'permutation_data': pd})
    from bqskit.ir.point import CircuitPoint
    for b in blocks:
        b['point'] = CircuitPoint(*b['point'])
    _INJ_CACHE[mode] = blocks          # the passes only read it; same input circuit for all cfgs of a path
    data[ForEachBlockPass.key] = [list(blocks)]
    return None


def run_pam_cfg(circ_in: Circuit, inp: tuple, m: int, edges: list, adj: list[set], cfg: dict) -> str | None:
    """[SetModelPass, placement, (perm-data injection), PAMLayoutPass, PAMRoutingPass, ApplyPlacement]."""
    n = circ_in.num_qudits
    circ = circ_in.copy()
    data = PassData(circ)
    model = MachineModel(m, CouplingGraph(edges, m))
    pl = cfg['pl']
    kw = dict(decay_delta=float(cfg.get('decay', 0.001)), decay_reset_interval=int(cfg.get('dri', 5)),
              extended_set_size=int(cfg.get('ext', 20)), decay_reset_on_gate=bool(cfg.get('drog', True)))
    sym = cfg.get('sym', '')
    Choices.active = tuple(x for x in sym.split(',') if x)
    LayoutCls = ChoicePAMLayout if 'layout' in sym else PAMLayoutPass
    RoutingCls = ChoicePAMRouting if 'routing' in sym else PAMRoutingPass
    stage = 'setmodel'
    try:
        drive(SetModelPass(model), circ, data)
        stage = 'placement'
        try:
            drive({'greedy': GreedyPlacementPass, 'trivial': TrivialPlacementPass}[pl](), circ, data)
        except RuntimeError as e:
            if pl == 'trivial' and not induced_connected(list(range(n)), adj):
                return None
            return 'placement:raised:' + type(e).__name__
        placement0 = list(data.placement)
        if not injective_into(placement0, n, m) or not induced_connected(placement0, adj):
            return 'placement:invalid'
        stage = 'inject'
        fp = inject_perm_data(circ, data, cfg.get('perms', 'both'))
        if fp is not None:
            return fp
        if cfg.get('layout', True):
            stage = 'pam-layout'
            drive(LayoutCls(total_passes=int(cfg.get('tp', 1)), gate_count_weight=float(cfg.get('gcw', 0.3)),
                                **kw), circ, data)
            if flat_of(circ) != inp or circ.num_qudits != n:
                return 'pam-layout:modified-circuit'
            if sorted(data.placement) != sorted(placement0) or not injective_into(data.placement, n, m):
                return 'pam-layout:placement-not-a-permutation'
            if list(data.initial_mapping) != list(range(n)) or list(data.final_mapping) != list(range(n)):
                return 'pam-layout:touched-mappings'
        placement1 = list(data.placement)
        stage = 'pam-routing'
        drive(RoutingCls(gate_count_weight=float(cfg.get('gcw', 0.1)), **kw), circ, data)
        if list(data.placement) != placement1:
            return 'pam-routing:changed-placement'
        ladj = adjacency(n, [(a, b) for a in range(n) for b in range(a + 1, n)
                             if placement1[b] in adj[placement1[a]]])
        fp = wire_check(inp, circ, list(data.initial_mapping), list(data.final_mapping), n, ladj)
        if fp is not None:
            rt.log('after PAM routing:', list(circ), 'placement', placement1, 'initial', data.initial_mapping,
                   'final', data.final_mapping)
            return 'pam-routing:' + fp
        stage = 'apply'
        drive(ApplyPlacement(), circ, data)
        fp = wire_check(inp, circ, list(data.initial_mapping), list(data.final_mapping), m, adj)
        if fp is None and not (injective_into(data.placement, len(data.placement), m)
                               and induced_connected(list(data.placement), adj)):
            fp = 'placement-disconnected'
        if fp is not None:
            rt.log('after ApplyPlacement:', list(circ), 'placement(after layout)', placement1, 'initial',
                   data.initial_mapping, 'final', data.final_mapping, 'placement', data.placement)
            return 'pam-apply:' + fp
    except Exception as e:  # noqa
        rt.log('stage', stage, 'raised', repr(e))
        return '%s:raised:%s' % (stage, type(e).__name__)
    return None


def run_all(circ: Circuit, m: int, edges: list, cfgs: list) -> str | None:
    inp = flat_of(circ)
    adj = adjacency(m, edges)
    _INJ_CACHE.clear()
    for cfg in cfgs:
        Choices.i = 0
        Choices.taken = []
        Choices.ncands = []
        fp = (run_pam_cfg if cfg.get('algo') == 'pam' else run_cfg)(circ, inp, m, edges, adj, cfg)
        if fp is not None:
            rt.log('machine: %d qudits, edges %s' % (m, edges))
            rt.log('input circuit:', list(circ), 'timelines', inp)
            rt.log('configuration:', cfg, '| symbolic swap choices taken:', Choices.taken)
            return fp
    return None


# ----------------------------------------------------------------------------------------
# symbolic inputs -> concrete graph / circuit (split at the harness boundary)


def decode_graph(m: int, ebits: list) -> list | None:
    S = rt.SHARD
    if 'edges' in S:
        edges = [(int(a), int(b)) for a, b in S['edges']]
    else:
        pairs = [(i, j) for i in range(m) for j in range(i + 1, m)]
        efix = S.get('efix', {})
        maxe = S.get('max_edges', len(pairs))
        edges = []
        for k, pr in enumerate(pairs):
            if str(k) in efix:
                b = int(efix[str(k)])
            else:
                b = rt.P(ebits[k], 0, 1 if len(edges) < maxe else 0)
            if b:
                edges.append(pr)
    if not fnt(lambda: induced_connected(list(range(m)), adjacency(m, edges))):
        return None
    return edges


# operation kinds (menu codes)
#  1 TG on 1 qudit           2 TG on an ordered pair        3 TG on an ordered triple
#  4 barrier on a pair        5 block [A(0,1) B(1)] on an ordered pair
#  6 block [A(0) B(1)] (single-qudit gates only) on a pair   7 barrier on all qudits
#  8 TG on a sorted pair      9 TG on a sorted triple   (PAM: blocks made by partitioners have sorted locations)
ARITY = {1: 1, 2: 2, 3: 3, 4: 2, 5: 2, 6: 2, 7: 0, 8: 2, 9: 3, 10: 4}      # 10: 4-qudit gate on increasing qudits
ORDERED = {1: True, 2: True, 3: True, 4: False, 5: True, 6: False, 7: True, 8: False, 9: False, 10: False}


def _tg(tags: list, ar: int) -> tuple:
    tags[0] += 1
    cls = NTG if rt.SHARD.get('pam') else TG
    return cls(tags[0], ar, (), 1), [tags[0] / 8.0]


def add_op(circ: Circuit, code: int, loc: list, tags: list) -> None:
    n = circ.num_qudits
    if code in (1, 2, 3, 8, 9, 10):
        g, ps = _tg(tags, len(loc))
        circ.append_gate(g, loc, ps)
    elif code == 4:
        circ.append_gate(BarrierPlaceholder(2), loc)
    elif code == 7:
        circ.append_gate(BarrierPlaceholder(n), list(range(n)))
    elif code in (5, 6):
        sub = Circuit(2)
        if code == 5:
            g, ps = _tg(tags, 2)
            sub.append_gate(g, [0, 1], ps)
            g, ps = _tg(tags, 1)
            sub.append_gate(g, [1], ps)
        else:
            g, ps = _tg(tags, 1)
            sub.append_gate(g, [0], ps)
            g, ps = _tg(tags, 1)
            sub.append_gate(g, [1], ps)
        circ.append_circuit(sub, loc, True)
    else:
        raise AssertionError(code)


def decode_ops(n: int, nops: int, xs: list) -> list:
    """Symbolic operation kinds/locations -> concrete [(code, location)] (solver-decided ladders)."""
    S = rt.SHARD
    spec = [(int(code), [int(q) for q in loc]) for code, loc in S.get('ops', [])]   # fixed prefix
    menu = [k for k in S.get('codes', [1, 2, 3, 4, 5, 6, 7]) if ARITY[k] <= n and not (k == 7 and n < 2)]
    for i in range(nops):
        c, q0, q1, q2 = xs[4 * i:4 * i + 4]
        code = menu[rt.P(c, 0, len(menu) - 1)]
        loc: list = []
        qs = [q0, q1, q2]
        if ARITY[code] > 3:
            # wide gate on increasing qudits: the (at most 3) qudits LEFT OUT are what is chosen
            out: list = []
            for j in range(n - ARITY[code]):
                cands = list(range(out[-1] + 1 if out else 0, n - (n - ARITY[code] - 1 - j)))
                out.append(cands[0] if len(cands) == 1 else cands[rt.P(qs[j], 0, len(cands) - 1)])
            spec.append((code, [q for q in range(n) if q not in out]))
            continue
        for j in range(ARITY[code]):
            if ORDERED[code]:
                cands = [q for q in range(n) if q not in loc]
            elif j == 0:
                cands = list(range(n - ARITY[code] + 1))
            else:
                cands = list(range(loc[-1] + 1, n - (ARITY[code] - 1 - j)))
            loc.append(cands[0] if len(cands) == 1 else cands[rt.P(qs[j], 0, len(cands) - 1)])
        spec.append((code, loc))
    return spec


def build_and_run(n: int, spec: list, m: int, edges: list, cfgs: list) -> str | None:
    circ = Circuit(n)
    tags = [0]
    for code, loc in spec:
        add_op(circ, code, loc, tags)
    return run_all(circ, m, edges, cfgs)


@rt.natively
def _body(ebits: list, xs: list, cs: list) -> bool:
    rt.begin()
    S = rt.SHARD
    m, n, nops = int(S['m']), int(S['n']), int(S['nops'])
    for k, v in S.get('xfix', {}).items():      # symbolic ints fixed by the shard
        xs[int(k)] = int(v)
    for k, v in S.get('cfix', {}).items():
        cs[int(k)] = int(v)
    edges = decode_graph(m, ebits)
    if edges is None:
        return True
    spec = decode_ops(n, nops, xs)
    Choices.xs = list(cs[:int(S.get('K', 0))])
    Choices.escapes = 0
    fp = fnt(build_and_run, n, spec, m, edges, S['cfgs'])
    rt.reach()
    if fp is not None:
        return rt.fail(fp)
    if S.get('need_escape') and rt.CONCRETE and Choices.escapes == 0:
        return rt.fail('escape-not-reached')
    return True


def route4(e0: int, e1: int, e2: int, e3: int, e4: int, e5: int,
           x0: int, x1: int, x2: int, x3: int, x4: int, x5: int, x6: int, x7: int,
           x8: int, x9: int, x10: int, x11: int) -> bool:
    """
    post: _
    """
    return _body([e0, e1, e2, e3, e4, e5], [x0, x1, x2, x3, x4, x5, x6, x7, x8, x9, x10, x11], [])


def route(e0: int, e1: int, e2: int, e3: int, e4: int, e5: int, e6: int, e7: int, e8: int, e9: int,
          x0: int, x1: int, x2: int, x3: int, x4: int, x5: int, x6: int, x7: int,
          x8: int, x9: int, x10: int, x11: int, x12: int, x13: int, x14: int, x15: int) -> bool:
    """
    post: _
    """
    return _body([e0, e1, e2, e3, e4, e5, e6, e7, e8, e9],
                 [x0, x1, x2, x3, x4, x5, x6, x7, x8, x9, x10, x11, x12, x13, x14, x15], [])


NCHOICE = 24


def escape(x0: int, x1: int, x2: int, x3: int, x4: int, x5: int, x6: int, x7: int,
           c0: int, c1: int, c2: int, c3: int, c4: int, c5: int, c6: int, c7: int, c8: int, c9: int,
           c10: int, c11: int, c12: int, c13: int, c14: int, c15: int, c16: int, c17: int, c18: int, c19: int,
           c20: int, c21: int, c22: int, c23: int) -> bool:
    """
    post: _
    """
    return _body([], [x0, x1, x2, x3, x4, x5, x6, x7],
                 [c0, c1, c2, c3, c4, c5, c6, c7, c8, c9, c10, c11, c12, c13, c14, c15, c16, c17, c18, c19,
                  c20, c21, c22, c23])


def escape_witness(shard: dict, timeout: float) -> dict:
    """kind 'direct': vacuity guard - a concrete choice sequence (alternating fruitless swaps) must
    enter the backtrack + uphill branch in the configured phase and satisfy the wire oracle."""
    old = rt.CONCRETE
    rt.CONCRETE = True
    try:
        hits = 0
        runs = 0
        for cs in shard['sequences']:
            Choices.escapes = 0
            ok = _body([], [0] * 8, list(cs) + [0] * (NCHOICE - len(cs)))
            runs += 1
            if not ok:
                return {'status': 'refuted', 'queries': runs, 'solver_s': 0, 'cex': {'sequence': cs},
                        'detail': 'wire oracle violated on the escape path: %s' % rt.FINGERPRINT[-1:]}
            hits += 1 if Choices.escapes else 0
        if hits == 0:
            return {'status': 'error', 'error': 'no witness sequence reached the escape branch', 'queries': runs}
        rt.PATHS, rt.REACHED = runs, hits
        return {'status': 'discharged', 'queries': runs, 'solver_s': 0, 'paths': runs, 'reached': hits,
                'detail': '%d of %d concrete sequences entered backtrack+uphill' % (hits, runs)}
    finally:
        rt.CONCRETE = old


def replay(shard: dict, cex: dict) -> tuple:
    rt.CONCRETE = True
    cs = cex.get('sequence', [])
    ok = _body([], [0] * 8, list(cs) + [0] * (NCHOICE - len(cs)))
    return (not ok), 'harness returned %r' % ok


# ----------------------------------------------------------------------------------------
# obligations


def cfg_list(kind: str) -> list:
    if kind == 'full':
        return [{'pl': pl, 'tp': tp, 'ext': ext, 'decay': d}
                for pl in ('greedy', 'trivial', 'static') for tp in (1, 2) for ext in (0, 1, 20)
                for d in (0.0, 0.001)] + [{'pl': pl, 'layout': False, 'ext': ext, 'decay': d, 'dri': dri}
                                          for pl in ('greedy', 'trivial', 'static')
                                          for (ext, d, dri) in ((20, 0.001, 5), (0, 0.0, 5), (1, 0.5, 1))] + [
            {'pl': pl, 'tp': 1, 'ext': 20, 'decay': 0.001, 'premap': k, 'premap_init': bool(k % 2)}
            for pl in ('greedy', 'trivial') for k in (1, 2, 3, 4, 5)]
    if kind == 'quick':
        out = []
        for pl in ('greedy', 'trivial', 'static'):
            out += [{'pl': pl, 'tp': 1, 'ext': 20, 'decay': 0.001},
                    {'pl': pl, 'tp': 2, 'ext': 0, 'decay': 0.0},
                    {'pl': pl, 'tp': 1, 'ext': 1, 'decay': 0.5, 'dri': 1}]
        out.append({'pl': 'greedy', 'tp': 2, 'ext': 20, 'decay': 0.001})
        out.append({'pl': 'greedy', 'layout': False, 'ext': 20, 'decay': 0.001})     # routing without layout
        out.append({'pl': 'static', 'layout': False, 'ext': 0, 'decay': 0.0})
        out.append({'pl': 'greedy', 'tp': 1, 'ext': 20, 'decay': 0.001, 'drog': False})   # decay_reset_on_gate off
        # mappings recorded by an earlier stage must be composed with, not overwritten
        out.append({'pl': 'greedy', 'tp': 1, 'ext': 20, 'decay': 0.001, 'premap': 1})
        out.append({'pl': 'trivial', 'layout': False, 'ext': 0, 'decay': 0.0, 'premap': 2, 'premap_init': True})
        return out
    if kind == 'pam-quick':
        P = {'algo': 'pam'}
        return [dict(P, pl='greedy', tp=1, perms='both', ext=20, decay=0.001),
                dict(P, pl='greedy', tp=2, perms='out', ext=0, decay=0.0),
                dict(P, pl='trivial', tp=1, perms='in', ext=1, decay=0.5, dri=1, gcw=1.0),
                dict(P, pl='trivial', tp=1, perms='both', ext=20, gcw=0.0),
                dict(P, pl='greedy', layout=False, perms='both', ext=20),
                dict(P, pl='trivial', layout=False, perms='out', ext=0, decay=0.0)]
    if kind == 'pam-full':
        P = {'algo': 'pam'}
        return [dict(P, pl=pl, tp=tp, perms=pm, ext=ext, decay=d, gcw=g)
                for pl in ('greedy', 'trivial') for tp in (1, 2) for pm in ('both', 'out', 'in')
                for (ext, d, g) in ((20, 0.001, 0.1), (0, 0.0, 1.0), (1, 0.5, 0.0))] + [
            dict(P, pl=pl, layout=False, perms=pm, ext=20) for pl in ('greedy', 'trivial') for pm in ('both', 'out', 'in')]
    raise AssertionError(kind)


LINE4 = [[0, 1], [1, 2], [2, 3]]
STAR4 = [[0, 3], [1, 3], [2, 3]]
# edge bits that may be fixed by a shard (all zero still leaves a connected complement)
SPLIT_IDX = {2: [], 3: [0], 4: [0, 5, 3], 5: [0, 7, 4, 9]}


def obligations(tier: str) -> list[dict]:
    obs: list[dict] = []

    def ob(name: str, func: str, timeout: int, **sh: Any) -> None:
        obs.append({'name': name, 'func': func, 'shard': sh, 'timeout': timeout})

    def fam(n: int, m: int, nops: int, codes: list, cfgs: str, timeout: int, split: Any = 0, **kw: Any) -> None:
        """split = k: the first k edge bits of SPLIT_IDX[m] are fixed per shard (2**k shards);
        split = 'op0': kind and first qudit of the first operation are fixed per shard;
        split = 'op0e': both (kind/first qudit of the first operation and one edge bit)."""
        cn = ''.join(map(str, codes))
        algo = 'pam' if cfgs.startswith('pam') else 'sabre'
        if algo == 'pam':
            kw['pam'] = 1
        nm = '%s/n%d/m%d/ops%d/codes%s/%s' % (algo, n, m, nops, cn, cfgs)
        if 'max_edges' in kw:
            nm += '/maxe%d' % kw['max_edges']
        if 'edges' in kw:
            nm += '/graph' + ''.join('%d%d' % tuple(e) + '-' for e in kw['edges'])[:-1]
        func = 'route4' if m <= 4 and nops <= 3 else 'route'
        base = dict(n=n, m=m, nops=nops, codes=codes, cfgs=cfg_list(cfgs), **kw)
        if split in ('op0', 'op0e'):
            menu = [k for k in codes if ARITY[k] <= n and not (k == 7 and n < 2)]
            for ci, code in enumerate(menu):
                nq = 1 if ARITY[code] == 0 else (n if ORDERED[code] else n - ARITY[code] + 1)
                for q in range(nq):
                    if split == 'op0':
                        ob('%s/op0=%d.%d' % (nm, code, q), func, timeout, xfix={'0': ci, '1': q}, **base)
                    else:
                        for bit in (0, 1):
                            ob('%s/op0=%d.%d/e%d' % (nm, code, q, bit), func, timeout, xfix={'0': ci, '1': q},
                               efix={str(SPLIT_IDX[m][0]): bit}, **base)
            return
        idx = SPLIT_IDX[m][:split]
        assert len(idx) == split, 'too many fixed edge bits for m=%d' % m
        for v in range(1 << split):
            efix = {str(k): (v >> i) & 1 for i, k in enumerate(idx)}
            ob(nm + ('/e' + ''.join(str((v >> i) & 1) for i in range(split)) if split else ''), func, timeout,
               efix=efix, **base)

    def esc(name: str, timeout: int, ops: list, sym: str, edges: list, fixed: int = 0, split: list = [],
            nsym: int = 0, codes: list = [2], witness: bool = True, pin: int = 0, **cfg: Any) -> None:
        """Escape obligations: fixed operations `ops` (+ nsym symbolic ones), symbolic swap choice in phase
        `sym`; the first `fixed` choices are pinned to candidate `pin`, the next len(split) ones enumerate shards
        (split[i] = number of candidates of that decision)."""
        c = dict(pl='trivial', layout=('layout' in sym), sym=sym)
        c.update(cfg)
        n = 1 + max(q for _, loc in ops for q in loc)
        sh = dict(n=max(n, 4), m=1 + max(max(e) for e in edges), edges=edges, K=NCHOICE, nops=nsym, codes=codes,
                  ops=ops, cfgs=[c], nofast=1)
        if c.get('algo') == 'pam':
            sh['pam'] = 1
            name = 'pam-' + name
        combos: list = [[]]
        for k in split:
            combos = [x + [v] for x in combos for v in range(k)]
        for combo in combos:
            cfix = {str(i): pin for i in range(fixed)}
            cfix.update({str(fixed + i): v for i, v in enumerate(combo)})
            ob('escape/%s%s' % (name, '/c' + ''.join(map(str, combo)) if combo else ''), 'escape', timeout,
               cfix=cfix, **sh)
        if witness:
            obs.append({'name': 'escape-witness/' + name, 'func': 'escape_witness', 'kind': 'direct', 'timeout': 60,
                        'shard': dict(sequences=[[0] * NCHOICE, [1] * NCHOICE, [2] * NCHOICE], **sh)})

    ALL = [1, 2, 3, 4, 5, 6, 7]
    if tier == 'quick':
        Q = 'quick'
        T = 600
        fam(2, 2, 2, [1, 2, 5, 7], Q, T)
        fam(2, 4, 2, [2, 5], Q, T)
        fam(3, 3, 2, [1, 2, 3, 5, 7], Q, T, split=1)
        fam(3, 3, 3, [2], Q, T)
        fam(3, 4, 1, ALL, Q, T)
        fam(3, 4, 2, [2, 3, 7], Q, T, split='op0')
        fam(3, 4, 3, [2], Q, T, split='op0', max_edges=3)
        fam(4, 4, 1, [2, 3, 5, 7], Q, T, split=1)
        fam(4, 4, 2, [2], Q, T, split=1, max_edges=3)
        fam(4, 4, 3, [2], Q, T, edges=LINE4)
        # a 4-qudit operation in a 5-qudit circuit on every 5-qudit tree (two coupled pairs are not a connected place)
        fam(5, 5, 1, [10], Q, T, max_edges=4)
        esc('routing-fwd/line4/T(0,3)', T, [[2, [0, 3]]], 'routing-fwd', LINE4, fixed=6)
        esc('layout-bwd/line4/T(1,2)T(0,3)', T, [[2, [1, 2]], [2, [0, 3]]], 'layout-bwd', LINE4, fixed=6)
        esc('routing-fwd/line4/T(0,1,3)', T, [[3, [0, 1, 3]]], 'routing-fwd', LINE4, fixed=13)
        # swaps accumulated over several gates with decay_reset_on_gate=False (the escape must stay tied to ONE stuck gate)
        esc('routing-fwd/line4/T(0,2)T(1,3)/drog0', T, [[2, [0, 2]], [2, [1, 3]]], 'routing-fwd', LINE4, fixed=12,
            witness=False, drog=False)
        esc('routing-fwd/line4/T(0,3)T(1,2)T(0,3)/drog0', T, [[2, [0, 3]], [2, [1, 2]], [2, [0, 3]]], 'routing-fwd', LINE4,
            fixed=10, witness=False, drog=False)
        PQ = 'pam-quick'
        fam(3, 3, 2, [1, 8, 9], PQ, T)
        fam(3, 4, 2, [8, 9], PQ, T)
        fam(3, 4, 3, [8], PQ, T)
        fam(4, 4, 2, [8], PQ, T, max_edges=3)
        fam(4, 4, 3, [8], PQ, T, edges=LINE4)
        fam(3, 4, 2, [9, 4, 7], PQ, T)                     # barriers
        esc('routing-fwd/line4/T(0,3)', T, [[8, [0, 3]]], 'routing-fwd', LINE4, fixed=6, algo='pam',
            perms='both')
    else:
        F = 'full'
        T = 3000
        LINE5 = [[0, 1], [1, 2], [2, 3], [3, 4]]
        fam(2, 2, 3, ALL, F, T)
        fam(5, 5, 1, [10], F, T, max_edges=4)
        fam(5, 5, 2, [10, 2], 'quick', T, split=1, max_edges=4)
        fam(2, 5, 2, [2, 5], F, T, split=1)
        fam(3, 3, 3, [2, 3, 5], F, T, split='op0')
        fam(3, 4, 2, ALL, F, T, split='op0')
        fam(3, 4, 3, [2], F, T, split='op0')
        fam(3, 4, 3, [2, 3], F, T, split='op0', max_edges=3)
        fam(3, 5, 1, ALL, F, T, split=2)
        fam(3, 5, 2, [2], F, T, split='op0')
        fam(4, 4, 2, [2, 3], F, T, split='op0')
        fam(4, 4, 2, [1, 4, 5, 6, 7], F, T, split=1)
        fam(4, 4, 3, [2], F, T, split='op0', max_edges=3)
        fam(4, 4, 4, [2], F, T, split='op0', edges=LINE4)
        fam(4, 5, 2, [2], F, T, split='op0', max_edges=4)
        fam(4, 5, 3, [2], F, T, edges=LINE5)
        for g in ([0, 3], [0, 2], [1, 3], [3, 0], [2, 0], [3, 1]):
            nm = 'T(%d,%d)' % tuple(g)
            esc('routing-fwd/line4/' + nm, T, [[2, g]], 'routing-fwd', LINE4)
        for g in ([0, 3], [2, 0], [3, 1]):
            nm = 'T(%d,%d)' % tuple(g)
            esc('layout-fwd/line4/' + nm, T, [[2, g]], 'layout-fwd', LINE4)
        esc('layout-bwd/line4/T(1,2)T(0,3)', T, [[2, [1, 2]], [2, [0, 3]]], 'layout-bwd', LINE4)
        esc('layout-bwd/line4/T(0,1)T(1,3)', T, [[2, [0, 1]], [2, [1, 3]]], 'layout-bwd', LINE4)
        esc('layout-bwd/line4/T(0,3)T(1,2)/tp2', T, [[2, [0, 3]], [2, [1, 2]]], 'layout-bwd', LINE4,
            tp=2)
        esc('routing-fwd/line4/T(0,1,3)', T, [[3, [0, 1, 3]]], 'routing-fwd', LINE4, fixed=9, split=[3])
        esc('routing-fwd/line4/T(3,0,2)', T, [[3, [3, 0, 2]]], 'routing-fwd', LINE4, fixed=9, split=[3], pin=2)
        esc('layout-fwd/line4/T(0,1,3)', T, [[3, [0, 1, 3]]], 'layout-fwd', LINE4, fixed=11)
        esc('routing-fwd/line4/T(0,3)+T(sym)', T, [[2, [0, 3]]], 'routing-fwd', LINE4, fixed=12, nsym=1)
        PF = 'pam-full'
        fam(3, 3, 3, [1, 8, 9], PF, T)
        fam(3, 4, 3, [8, 9], PF, T, split=2)
        fam(3, 5, 2, [8, 9], PF, T, split=2)
        fam(4, 4, 2, [1, 8, 9], PF, T, split='op0')
        fam(4, 4, 3, [8], PF, T, split='op0', max_edges=3)
        fam(4, 5, 2, [8], PF, T, split='op0', max_edges=4)
        fam(3, 4, 2, [8, 9, 4, 7], PF, T)                   # barriers
        fam(4, 4, 2, [8, 4], PF, T, edges=LINE4)             # barriers
        esc('routing-fwd/line4/T(0,3)', T, [[8, [0, 3]]], 'routing-fwd', LINE4, algo='pam',
            perms='both')
        esc('layout-fwd/line4/T(0,3)', T, [[8, [0, 3]]], 'layout-fwd', LINE4, algo='pam',
            perms='out')
        esc('routing-fwd/line4/T(0,1,3)', T, [[9, [0, 1, 3]]], 'routing-fwd', LINE4, fixed=11, algo='pam',
            perms='both')
    return obs
