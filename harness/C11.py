"""C11 - block-wise and control-flow passes apply their bodies exactly as specified.

Three families of obligations (all run the REAL pass code; CrossHair/z3 decides every split):

  fe/...   ForEachBlockPass on a partitioned circuit whose items (plain tagged gates and CircuitGate
           blocks of width 1-3) are inserted at symbolic positions; symbolic collection bit per
           operation, replace bit per block, body behaviour per block, machine graph, placement.
  ctl/...  trees (depth <= 2) of IfThenElse / While / DoWhile / DoThenDecide / ParallelDo / Workflow /
           ForEachBlockPass over instrumented leaf bodies; predicate outcomes, DoThenDecide decisions,
           ParallelDo comparisons and the order in which runtime.next() delivers results are symbolic.
           An independent reference interpreter (harness/c11_common.py:ref_run) consumes the symbolic
           outcomes lazily, which fixes them; the real passes then run on the same script and must
           produce the same execution trace, circuit and PassData (every attribute).
  err/...  the error bound arithmetic of ForEachBlockPass over symbolic reals.
"""
from __future__ import annotations

from fractions import Fraction
from typing import Any

from bqskit.compiler.basepass import BasePass
from bqskit.compiler.machine import MachineModel
from bqskit.compiler.passdata import PassData
from bqskit.compiler.workflow import Workflow
from bqskit.ir.circuit import Circuit
from bqskit.ir.gates.circuitgate import CircuitGate
from bqskit.ir.operation import Operation
from bqskit.passes.control.foreach import ForEachBlockPass
from bqskit.qis.graph import CouplingGraph
from harness import c11_common as K
from harness.c11_common import H, RC, RD, RDwithRC, Src, State
from vf import rt
from vf.circ_oracle import TG, Viol, check_invariant, flat_of, grid, op_key

PROPERTY = 'C11'
LEVEL = 'model_checking'
ENCODED = [
    'bqskit.passes.control.foreach:ForEachBlockPass.{__init__,run}', 'bqskit.passes.control.foreach:gen_replace_filter',
    'bqskit.passes.control.foreach:{_less_than,default_replace_filter,default_collection_filter}',
    'bqskit.compiler.basepass:_sub_do_work', 'bqskit.ir.circuit:Circuit.{batch_replace,replace,copy,become,'
    'operations_with_cycles,from_operation,set_params,append_circuit,insert_circuit}',
    'bqskit.compiler.passdata:PassData.{__init__,copy,become,update_error_mul,connectivity,__getitem__,__setitem__,'
    '__contains__,__iter__}', 'bqskit.compiler.machine:MachineModel.__init__', 'bqskit.qis.graph:CouplingGraph.get_subgraph',
    'bqskit.passes.control.ifthenelse:IfThenElsePass', 'bqskit.passes.control.whileloop:WhileLoopPass',
    'bqskit.passes.control.dowhileloop:DoWhileLoopPass', 'bqskit.passes.control.dothendecide:DoThenDecide',
    'bqskit.passes.control.paralleldo:ParallelDo', 'bqskit.compiler.workflow:Workflow.{__init__,run,__getstate__,__setstate__}',
    'bqskit.passes.control.predicate:PassPredicate.__call__',
    'bqskit.passes.control.predicates:{NotPredicate,AndPredicate,OrPredicate,WidthPredicate,ChangePredicate,GateCountPredicate}',
    'bqskit.runtime.task:RuntimeTask.{__init__,fnargs}',
]
ASSUMPTIONS = [
    'runtime: inline stub (harness/c11_common.py:StubRuntime) - map() groups arguments like Worker.map, ships every '
    'task through a real RuntimeTask (dill round trip), runs tasks to completion in argument order; next() returns the '
    'batch chosen by the solver; cancel() is recorded. Scheduling/interleaving of the real runtime is C12-C14.',
    'gates are harness-tagged gates without numerics; hence PassData._target of a block is the block circuit itself '
    '(lazy-target path) and is compared by kind only; top-level target is set to a UnitaryMatrix',
    'bqskit.compiler.workflow.seed_random_sources is stubbed (it looks up libc through ctypes on every pass)',
    'body passes / predicates are harness classes at module level; their instrumentation state is module-global',
    'a failing body: the exception must propagate out of the pass and nothing may be written back; with the inline '
    'runtime later blocks do not run (a parallel runtime may run them)',
    'err family: arguments are not shipped through dill (symbolic reals cannot cross the C boundary)',
]
BOUNDS = {
    'quick': 'fe: W=3; 2 items (first width fixed per shard, second fully symbolic: block/plain gate, width 1-3, sorted '
             'and reversed locations, cycle position -> alone in a cycle / adjacent / gaps) with collect and replace '
             'bits; 3 blocks (structure; filter bits); 6 body behaviours on 1-2 blocks; less-than and always filters; '
             'shipped results; every 3-qudit machine graph x placement x seed on every ordered block location; '
             'ctl: depth<=2 trees (first slot nested) of 9 outer kinds x 9 inner kinds, <=4 symbolic outcomes then '
             'loop-ending outcomes, 3 leaf behaviours, ParallelDo with 2-3 branches and symbolic next() batches; '
             'err: 3 blocks, all 8 accept patterns, symbolic reals in [0,1]',
    'thorough': 'fe: W=3..4, all ordered locations, 2 inner shapes, <=4 items, 4-qudit machine; ctl: every slot nested, '
                '<=5 outcomes, shipped results',
}
OUTSIDE = ('calculate_error_bound=True inside _sub_do_work (needs unitaries: the numeric distance is C06/C18 territory; '
           'here errors are injected by the body and the bound arithmetic is decided over reals); string replace '
           'filters other than always/less-than; nesting depth > 2; more than 4 blocks; radix != 2; scheduling of the '
           'real runtime (C12-C14)')


# =========================================================================== ForEach family
SHAPES = {
    1: [[(0,), (0,)]],
    2: [[(0, 1), (1,)], [(0,), (1, 0)]],
    3: [[(0, 1, 2), (2,)], [(0, 1), (1, 2), (0,)]],
}
B_ID, B_SAME, B_FEWER, B_MORE, B_EMPTY, B_RAISE, B_PARAMS = range(7)


def locations(W: int, w: int, mode: str) -> list:
    import itertools
    if mode == 'all':
        return [tuple(p) for p in itertools.permutations(range(W), w)]
    out = [tuple(c) for c in itertools.combinations(range(W), w)]
    if mode == 'first':
        return out[:1]
    if mode == 'mixed' and w >= 2:
        out += [tuple(reversed(c)) for c in itertools.combinations(range(W), w)]
    return out


def idtag_of_circuit(circ: Circuit) -> int:
    return min(op.gate.tag for op in circ)


def idtag_of_op(op: Operation) -> int:
    if isinstance(op.gate, CircuitGate):
        return idtag_of_circuit(op.gate._circuit)
    return op.gate.tag


class FBody(BasePass):
    """ForEach leaf: records the block it was given and its data, rewrites as scripted."""

    async def run(self, circuit: Circuit, data: PassData) -> None:
        t0 = idtag_of_circuit(circuit)
        H.trace.append(('febody', t0, flat_of(circuit), K.nf_data(data)))
        beh = H.fe_beh.get(t0, B_ID)
        w = circuit.num_qudits
        if beh == B_RAISE:
            raise K.BodyError(t0)
        if beh == B_SAME:
            new = Circuit(w)
            for op in circuit:
                new.append_gate(TG(op.gate.tag + 1000, op.num_qudits), op.location)
            circuit.become(new)
        elif beh == B_FEWER:
            circuit.clear()
            circuit.append_gate(TG(t0 + 2000, w), list(range(w)))
        elif beh == B_MORE:
            for q in range(w):
                circuit.append_gate(TG(t0 + 3000 + q, 1), [q])
            circuit.append_gate(TG(t0 + 3500, w), list(range(w)))
        elif beh == B_EMPTY:
            circuit.clear()
        elif beh == B_PARAMS:        # same gates, every parameter nudged (re-instantiation / retuning)
            circuit.set_params([p + 0.25 for p in circuit.params])
        data.error = H.fe_err.get(t0, 0.0)


def fe_collect(op: Operation) -> bool:
    return bool(H.fe_collect.get(idtag_of_op(op), False))


def fe_replace(circuit: Circuit, op: Operation) -> bool:
    t0 = idtag_of_op(op)
    H.trace.append(('rf', t0, flat_of(circuit), (tuple(op.location), op_key(op))))
    return bool(H.fe_replace.get(t0, False))


def ref_rewrite(beh: int, content: RC, t0: int) -> RC:
    w = content.W
    out = RC(w)
    if beh == B_ID:
        return content.copy()
    if beh == B_SAME:
        out.ops = [[loc, ('T', k[1] + 1000), None] for (loc, k, _) in content.ops]
    elif beh == B_FEWER:
        out.ops = [[tuple(range(w)), ('T', t0 + 2000), None]]
    elif beh == B_MORE:
        out = content.copy()
        for q in range(w):
            out.ops.append([(q,), ('T', t0 + 3000 + q), None])
        out.ops.append([tuple(range(w)), ('T', t0 + 3500), None])
    elif beh == B_EMPTY:
        pass
    elif beh == B_PARAMS:
        out.ops = [[loc, (k if len(k) < 3 else ('T', k[1], tuple(p + 0.25 for p in k[2]))), None]
                   for (loc, k, _) in content.ops]
    return out


def content_of(op: list) -> RC:
    """What the body must be given for a collected top-level op (documented: the block's circuit,
    or a one-operation circuit for any other gate)."""
    loc, key, _ = op
    if key[0] == 'B':
        return key[1].copy()
    rc = RC(len(loc))
    rc.ops = [[tuple(range(len(loc))), key, None]]
    return rc


def min_tag(rc: RC) -> int:
    out = []
    for _, k, _ in rc.ops:
        out.append(k[1] if k[0] == 'T' else min_tag(k[1]))
    return min(out)


def num_ops(rc: RC) -> int:
    return len(rc.ops)


def fe_build(src: Src, S: dict) -> Circuit:
    """items: comma separated specs, each = kind ('B' block, 'T' plain gate, '?' symbolic) + optional fixed width."""
    W = S['W']
    circ = Circuit(W)
    for i, spec in enumerate(S['items'].split(',')):
        kind = spec[0]
        if kind == '?':
            kind = 'BT'[src.P(0, 1)]
        if len(spec) > 1:
            w = int(spec[1])
        else:
            w = src.P(1, min(3, W, S.get('maxw', 3)))
        locs = locations(W, w, S.get('locs', 'sorted'))
        loc = list(locs[src.P(0, len(locs) - 1)])
        cyc = src.P(0, circ.num_cycles)
        base = 10 * (i + 1)
        if kind == 'T':
            if S.get('pgates'):
                rt.nt(circ.insert_gate, cyc, TG(base, w, (), 1), loc, [base / 8.0])
            else:
                rt.nt(circ.insert_gate, cyc, TG(base, w), loc)
            continue
        shapes = SHAPES[w][:S.get('nshapes', 1)]
        shape = shapes[src.P(0, len(shapes) - 1)]

        def mk() -> None:
            sub = Circuit(w)
            for k, l in enumerate(shape):
                if S.get('pgates'):
                    sub.append_gate(TG(base + k, len(l), (), 1), list(l), [(base + k) / 8.0])
                else:
                    sub.append_gate(TG(base + k, len(l)), list(l))
            circ.insert_circuit(cyc, sub, loc, True)
        rt.nt(mk)
    return circ


def fe_model(src: Src, S: dict, W: int) -> tuple:
    """(M, edges, placement, seed)"""
    if S.get('model', 'line') == 'line':
        return W, {(i, i + 1) for i in range(W - 1)}, list(range(W)), None
    M = S.get('M', W)
    edges = set()
    for a in range(M):
        for b in range(a + 1, M):
            if src.P(0, 1):
                edges.add((a, b))
    rest = list(range(M))
    placement = [rest.pop(src.P(0, len(rest) - 1)) for _ in range(W)]
    seed = [None, 7][src.P(0, 1)]
    return M, edges, placement, seed


def fe_run(xs: list) -> bool:
    rt.begin()
    S = rt.SHARD
    H.reset()
    H.ship_results = bool(S.get('ship', False))
    src = Src(xs)
    try:
        circ = fe_build(src, S)
        W = circ.num_qudits
        M, edges, placement, seed = fe_model(src, S, W)
        before = rt.nt(K.rc_from, circ)
        # ---- symbolic filter bits / behaviours, in iteration order
        behs = S.get('behs', [B_ID, B_SAME, B_FEWER, B_MORE, B_EMPTY, B_RAISE])
        rf = S.get('rf', 'sym')
        plan = []
        raised = None
        for i, op in enumerate(before.ops):
            if S.get('collect', 'sym') == 'sym':
                col = bool(src.P(0, 1))
            else:
                col = op[1][0] == 'B'
            plan.append({'col': col, 'beh': B_ID, 'rep': False, 't0': min_tag(content_of(op))})
        for i, op in enumerate(before.ops):
            p = plan[i]
            if not p['col'] or raised is not None:
                continue
            p['beh'] = behs[src.P(0, len(behs) - 1)]
            if p['beh'] == B_RAISE:
                raised = i
        if raised is None:
            for i, op in enumerate(before.ops):
                p = plan[i]
                if not p['col']:
                    continue
                content = content_of(op)
                result = ref_rewrite(p['beh'], content, p['t0'])
                if rf == 'sym':
                    p['rep'] = bool(src.P(0, 1))
                elif rf == 'always':
                    p['rep'] = True
                elif rf == 'less-than':
                    # documented: replace if the new circuit has fewer gates than the old block
                    p['rep'] = (num_ops(result) < num_ops(op[1][1])) if op[1][0] == 'B' else True
                else:
                    raise AssertionError(rf)
    except K.OutOfBound:
        return True

    # ---- reference expectation
    old_err = Fraction(1, 4)
    top = RD(W)
    top.mn, top.medges, top.placement, top.seed, top.tk = M, set(edges), list(placement), seed, 0
    top.error = old_err
    pd_key = ForEachBlockPass.pass_down_key_prefix + 'k'
    ps_key = ForEachBlockPass.pass_down_block_specific_key_prefix + 's'
    top.user = {pd_key: 'pd', ps_key: {0: 'a', 2: 'c'}}
    exp_trace: list = []
    after = before.copy()
    collected = [i for i, p in enumerate(plan) if p['col']]
    done: list = []
    for n, i in enumerate(collected):
        op, p = before.ops[i], plan[i]
        content = content_of(op)
        bd = K.fresh_block_data(None, top, op[0], op[2], n)   # type: ignore
        exp_trace.append(('febody', p['t0'], content.flat(), bd.nf(content)))
        if p['beh'] == B_RAISE:
            break
        res = ref_rewrite(p['beh'], content, p['t0'])
        bd.error = Fraction(1, 2 ** (4 + n))
        done.append((i, bd, res))
    final = top.copy()
    if raised is None:
        esum = Fraction(0)
        for (i, bd, res) in done:
            op, p = before.ops[i], plan[i]
            if rf == 'sym':
                exp_trace.append(('rf', p['t0'], res.flat(),
                                  (op[0], ('T', op[1][1], op[1][2] if len(op[1]) > 2 else ()) if op[1][0] == 'T'
                                   else ('B', op[1][1].flat()))))
            bd.user['replaced'] = p['rep']
            if p['rep']:
                after.ops[i][1] = ('B', res)
                esum += bd.error
        final.user[ForEachBlockPass.key] = [tuple(RDwithRC(bd, res) for (_, bd, res) in done)] if done else [[]]
        final.error = 1 - (1 - old_err) * (1 - esum)

    # ---- real run
    def real() -> tuple:
        for i, p in enumerate(plan):
            H.fe_collect[p['t0']] = p['col']
            H.fe_replace[p['t0']] = p['rep']
            H.fe_beh[p['t0']] = p['beh']
        for n, i in enumerate(collected):
            H.fe_err[plan[i]['t0']] = float(Fraction(1, 2 ** (4 + n)))
        data = PassData(circ)
        data.target = K.u_const(W, 0)
        data.model = MachineModel(M, CouplingGraph(sorted(edges), M))
        data.placement = placement
        data.seed = seed
        data.error = float(old_err)
        data[pd_key] = 'pd'
        data[ps_key] = {0: 'a', 2: 'c'}
        p_ = ForEachBlockPass(
            [FBody()], collection_filter=fe_collect if S.get('collect', 'sym') == 'sym' else None,
            replace_filter=fe_replace if rf == 'sym' else rf,
        )
        g0 = [[None if x is None else (op_key(x), tuple(x.location)) for x in row] for row in grid(circ)]
        exc = None
        try:
            K.drive(Workflow([p_]).run(circ, data))
        except Exception as e:  # noqa
            exc = e
        g1 = [[None if x is None else (op_key(x), tuple(x.location)) for x in row] for row in grid(circ)]
        inv = None
        try:
            check_invariant(circ, 'after ForEachBlockPass')
        except Viol as v:
            inv = v.fp
        return exc, g0, g1, inv, K.nf_top(circ), K.nf_data(data), list(H.trace)

    exc, g0, g1, inv, top_after, data_after, trace = rt.nt(real)
    rt.reach()
    if rt.CONCRETE:
        rt.log('items', S['items'], 'picks', src.log)
        rt.log('before', before.top())
        rt.log('plan', plan)
        rt.log('model', M, sorted(edges), 'placement', placement, 'seed', seed)
        rt.log('after ', top_after, 'exception', repr(exc))
    fp = compare_traces(trace, exp_trace, 'fe')
    if fp is not None:
        return rt.fail(fp)
    if raised is not None:
        if not isinstance(exc, K.BodyError) or exc.bid != plan[raised]['t0']:
            return rt.fail('fe:body-failure-not-propagated')
        if g1 != g0:
            return rt.fail('fe:circuit-changed-although-body-failed')
        return True
    if exc is not None:
        rt.log('unexpected exception', repr(exc))
        return rt.fail('fe:exception:%s' % type(exc).__name__)
    if inv is not None:
        return rt.fail('fe:invariant:%s' % inv)
    if not K.same_top(top_after, after.top()):
        rt.log('expected', after.top())
        return rt.fail('fe:write-back')
    d = K.first_diff(final.nf(after), data_after)
    if d is not None:
        rt.log('PassData field', d, 'expected', final.nf(after).get(d), 'got', data_after.get(d))
        return rt.fail('fe:passdata:%s' % d)
    return True


def compare_traces(got: list, exp: list, fam: str) -> 'str | None':
    for i, (g, e) in enumerate(zip(got, exp)):
        if g == e:
            continue
        rt.log('trace entry', i, 'expected', e[:3])
        rt.log('trace entry', i, 'got     ', g[:3])
        if g[0] != e[0] or (g[0] in ('body', 'febody', 'rf') and g[1] != e[1]):
            return '%s:trace-order' % fam
        if g[0] in ('body', 'febody'):
            if g[2] != e[2]:
                return '%s:body-given-wrong-circuit' % fam
            d = K.first_diff(e[3], g[3])
            rt.log('PassData field given to body', d, 'expected', e[3].get(d), 'got', g[3].get(d))
            return '%s:passdata:%s' % (fam, d)
        return '%s:trace:%s' % (fam, g[0])
    if len(got) != len(exp):
        rt.log('expected trace', [x[:2] for x in exp])
        rt.log('got      trace', [x[:2] for x in got])
        return '%s:trace-length' % fam
    return None


# =========================================================================== control family
ALL_INNER = ['leaf', 'if', 'while', 'dowhile', 'dtd', 'pardo', 'pardof', 'seq', 'foreach']


def gen_tree(src: Src, S: dict) -> tuple:
    ids = [0]
    inner = S.get('inner', ALL_INNER)
    preds = S.get('preds', ['s'])
    nest_all = bool(S.get('nest_all', False))
    maxd = S.get('depth', 2)

    def leaf() -> tuple:
        ids[0] += 1
        return ('leaf', ids[0])

    def mk(kind: str, depth: int) -> tuple:
        first = [True]

        def child() -> tuple:
            nest = depth < maxd and (nest_all or first[0])
            first[0] = False
            if not nest:
                return leaf()
            return mk(inner[src.P(0, len(inner) - 1)], depth + 1)
        if kind == 'leaf':
            return leaf()
        if kind == 'if':
            pk = preds[src.P(0, len(preds) - 1)]
            a = child()
            b = child() if src.P(0, 1) else None
            return ('if', pk, a, b)
        if kind in ('while', 'dowhile'):
            pk = preds[src.P(0, len(preds) - 1)]
            return (kind, pk, child())
        if kind == 'dtd':
            return ('dtd', child())
        if kind in ('pardo', 'pardof'):
            return ('pardo', kind == 'pardof', [child(), child()])
        if kind in ('pardo3', 'pardof3'):
            return ('pardo', kind == 'pardof3', [child(), child(), child()])
        if kind == 'seq':
            return ('seq', [child(), child()])
        if kind == 'foreach':
            return ('foreach', child())
        raise AssertionError(kind)
    return mk(S['outer'], 1)


def ctl_circuit() -> Circuit:
    c = Circuit(3)
    a = Circuit(2)
    a.append_gate(TG(1, 2), [0, 1])
    a.append_gate(TG(2, 1), [1])
    c.append_circuit(a, [2, 0], True)
    c.append_gate(TG(3, 1), [1])
    b = Circuit(1)
    b.append_gate(TG(4, 1), [0])
    c.append_circuit(b, [1], True)
    c.append_gate(TG(5, 1), [0])
    return c


def ctl_run(xs: list) -> bool:
    rt.begin()
    S = rt.SHARD
    H.reset()
    H.ship_results = bool(S.get('ship', False))
    src = Src(xs)
    W = 3
    pd_key = ForEachBlockPass.pass_down_key_prefix + 'k'
    ps_key = ForEachBlockPass.pass_down_block_specific_key_prefix + 's'
    circ = rt.nt(ctl_circuit)
    st = State(rt.nt(K.rc_from, circ), RD(W))
    st.rd.medges = {(0, 1), (1, 2)}
    st.rd.tk = 0
    st.rd.user = {pd_key: 'pd', ps_key: {1: 'b'}}
    ctx = K.Ctx(src, S.get('max_script', 4), S.get('behs', [K.BEH_EDIT, K.BEH_NOOP, K.BEH_RAISE]), {})
    ref_exc = None
    try:
        tree = gen_tree(src, S)
        try:
            ref_run_traced(ctx, tree, st)
        except K.RefRaise as e:
            ref_exc = e
    except K.OutOfBound:
        return True

    def real() -> tuple:
        H.script = list(ctx.script)
        H.beh = dict(ctx.beh)
        H.next_order = [list(o) for o in ctx.next_order]
        data = PassData(circ)
        data.target = K.u_const(W, 0)
        data.model = MachineModel(W, [(0, 1), (1, 2)])
        data[pd_key] = 'pd'
        data[ps_key] = {1: 'b'}
        p_ = K.build_pass(tree, W)
        exc = None
        try:
            K.drive(Workflow([p_]).run(circ, data))
        except Exception as e:  # noqa
            exc = e
        inv = None
        try:
            check_invariant(circ, 'after control pass')
        except Viol as v:
            inv = v.fp
        return exc, inv, K.nf_top(circ), K.nf_data(data), list(H.trace), list(H.script)

    exc, inv, top_after, data_after, trace, left = rt.nt(real)
    rt.reach()
    if rt.CONCRETE:
        rt.log('tree', tree)
        rt.log('script', ctx.script, 'behaviours', ctx.beh, 'next() batches', ctx.next_order)
        rt.log('expected trace', [x[:2] if x[0] == 'body' else x for x in ctx.trace])
        rt.log('real     trace', [x[:2] if x[0] == 'body' else x for x in trace])
        rt.log('exception', repr(exc))
    if isinstance(exc, K.ScriptOverrun):
        return rt.fail('ctl:more-predicate-evaluations-than-dictated')
    if isinstance(exc, K.Runaway):
        return rt.fail('ctl:runaway-loop')
    fp = compare_traces(trace, ctx.trace, 'ctl')
    if fp is not None:
        return rt.fail(fp)
    if ref_exc is not None:
        if not isinstance(exc, K.BodyError) or exc.bid != ref_exc.bid:
            return rt.fail('ctl:body-failure-not-propagated')
        return True
    if exc is not None:
        return rt.fail('ctl:exception:%s' % type(exc).__name__)
    if left:
        return rt.fail('ctl:fewer-predicate-evaluations-than-dictated')
    if inv is not None:
        return rt.fail('ctl:invariant:%s' % inv)
    if not K.same_top(top_after, st.rc.top()):
        rt.log('expected circuit', st.rc.top())
        rt.log('got      circuit', top_after)
        return rt.fail('ctl:circuit')
    d = K.first_diff(st.rd.nf(st.rc), data_after)
    if d is not None:
        rt.log('PassData field', d, 'expected', st.rd.nf(st.rc).get(d), 'got', data_after.get(d))
        return rt.fail('ctl:passdata:%s' % d)
    return True


def ref_run_traced(ctx: Any, tree: tuple, st: State) -> None:
    K.ref_run(ctx, tree, st)


# =========================================================================== error-bound family
class EBody(BasePass):
    async def run(self, circuit: Circuit, data: PassData) -> None:
        data.error = H.fe_err[idtag_of_circuit(circuit)]


def er_replace(circuit: Circuit, op: Operation) -> bool:
    return H.fe_replace[idtag_of_op(op)]


class SymReal:
    """A real number that records the arithmetic the real code performs on it as a z3 term."""

    def __init__(self, term: Any) -> None:
        self.t = term

    @staticmethod
    def lift(x: Any) -> Any:
        import z3
        if isinstance(x, SymReal):
            return x.t
        if isinstance(x, bool) or not isinstance(x, (int, float, Fraction)):
            raise TypeError('SymReal arithmetic with %r' % (x,))
        fr = Fraction(x)
        return z3.RealVal(fr.numerator) / z3.RealVal(fr.denominator)

    def __add__(self, o: Any) -> 'SymReal':
        return SymReal(self.t + SymReal.lift(o))

    def __radd__(self, o: Any) -> 'SymReal':
        return SymReal(SymReal.lift(o) + self.t)

    def __sub__(self, o: Any) -> 'SymReal':
        return SymReal(self.t - SymReal.lift(o))

    def __rsub__(self, o: Any) -> 'SymReal':
        return SymReal(SymReal.lift(o) - self.t)

    def __mul__(self, o: Any) -> 'SymReal':
        return SymReal(self.t * SymReal.lift(o))

    def __rmul__(self, o: Any) -> 'SymReal':
        return SymReal(SymReal.lift(o) * self.t)

    def __neg__(self) -> 'SymReal':
        return SymReal(-self.t)

    def __bool__(self) -> bool:
        raise TypeError('the code under test branched on a symbolic error value')

    __lt__ = __le__ = __gt__ = __ge__ = __float__ = lambda self, *a: SymReal.__bool__(self)  # type: ignore


import numbers  # noqa: E402
numbers.Real.register(SymReal)


def _err_once(old: Any, es: list, rs: list) -> Any:
    """Runs the REAL ForEachBlockPass on three 1-qudit blocks whose body reports error es[i]."""
    H.reset()
    H.serialize = False
    c = Circuit(3)
    for i in range(3):
        s_ = Circuit(1)
        s_.append_gate(TG(10 * (i + 1), 1), [0])
        s_.append_gate(TG(10 * (i + 1) + 1, 1), [0])
        c.append_circuit(s_, [i], True)
        H.fe_err[10 * (i + 1)] = es[i]
        H.fe_replace[10 * (i + 1)] = rs[i]
    data = PassData(c)
    data.error = old
    K.drive(ForEachBlockPass([EBody()], replace_filter=er_replace).run(c, data))
    return data.error


def err_direct(shard: dict, timeout: float) -> dict:
    """E2 style: the code's own arithmetic, executed on symbolic reals, against the composition bound.
    Sub-additivity of the distance gives total <= old + sum of the ACCEPTED blocks' errors; the reported
    value may fall short of that only by the second-order term old * sum, and must not count rejected blocks."""
    import time
    import z3
    rt.begin()
    t0 = time.time()
    old = z3.Real('old')
    es = [z3.Real('e%d' % i) for i in range(3)]
    dom = z3.And(old >= 0, old <= 1, *[z3.And(e >= 0, e <= 1) for e in es])
    queries = 0
    for mask in range(8):
        rs = [bool(mask >> i & 1) for i in range(3)]
        new = _err_once(SymReal(old), [SymReal(e) for e in es], rs)
        if not isinstance(new, SymReal):
            return {'status': 'error', 'detail': 'data.error is not derived from the injected errors: %r' % (new,)}
        ssum = sum([e for e, r in zip(es, rs) if r], z3.RealVal(0))
        rt.reach()
        for name, bad in (('bound-too-small', new.t < old + ssum - old * ssum),
                          ('bound-counts-rejected-blocks-or-too-large', new.t > old + ssum)):
            sv = z3.Solver()
            sv.set('timeout', int(timeout * 1000 / 16))
            sv.add(dom, bad)
            queries += 1
            r = sv.check()
            if r == z3.sat:
                m = sv.model()

                def val(v: Any) -> float:
                    x = m.eval(v, model_completion=True)
                    return float(x.numerator_as_long()) / float(x.denominator_as_long())
                cex = {'old': val(old), 'es': [val(e) for e in es], 'rs': rs, 'what': name}
                return {'status': 'refuted', 'queries': queries, 'solver_s': round(time.time() - t0, 3), 'cex': cex,
                        'detail': name}
            if r != z3.unsat:
                return {'status': 'inconclusive', 'queries': queries, 'solver_s': round(time.time() - t0, 3),
                        'detail': 'z3 returned unknown'}
    return {'status': 'discharged', 'queries': queries, 'solver_s': round(time.time() - t0, 3), 'paths': 8,
            'reached': 8, 'detail': 'all 8 accept/reject patterns, both inequalities unsat over [0,1]^4'}


def replay(shard: dict, cex: dict) -> tuple:
    """Concrete floats from the model through the unmodified code."""
    old, es, rs = float(cex['old']), [float(x) for x in cex['es']], [bool(x) for x in cex['rs']]
    new = _err_once(old, es, rs)
    ssum = sum(e for e, r in zip(es, rs) if r)
    rt.log('old', old, 'block errors', es, 'accepted', rs, '-> data.error', new, '; old+sum', old + ssum,
           '; second-order slack', old * ssum)
    bad = new < old + ssum - old * ssum - 1e-12 or new > old + ssum + 1e-12
    if bad:
        rt.fingerprint('err:' + str(cex.get('what')))
    return bad, 'data.error=%r vs composition bound %r' % (new, old + ssum)


# =========================================================================== shared CircuitGate object
# Several collected operations may hold ONE CircuitGate object with different parameters (a circuit built by appending a
# parameterised CircuitGate several times; any partitioned circuit after a pickle round trip, because Circuit.__reduce__
# keys its gate table by == and CircuitGate.__eq__ ignores parameters). Each block must reach the body with ITS OWN
# parameters and be written back with its own result. Oracle independent of the tag-based reference model above.
_SHARED: dict = {'beh': 0, 'seen': [], 'rep': []}


class SharedBody(BasePass):
    async def run(self, circuit: Circuit, data: PassData) -> None:
        _SHARED['seen'].append([float(x) for x in circuit.params])
        if _SHARED['beh'] == 1:
            circuit.set_params([float(x) + 1.0 for x in circuit.params])


def _shared_rf(circuit: Circuit, op: Operation) -> bool:
    i = int(round((float(op.params[0]) - 1.0) / 16.0))
    return bool(_SHARED['rep'][i]) if 0 <= i < len(_SHARED['rep']) else True


@rt.natively
def _fe_shared_body(k: int, l1: int, l2: int, beh: int, r0: bool, r1: bool, r2: bool, ser: bool) -> bool:
    rt.begin()
    H.reset()
    nblk = rt.P(k, 2, 3)
    locs = [(0, 1), (1, 0), (1, 2), (2, 1), (0, 2), (2, 0)]
    picks = [(0, 1), locs[rt.P(l1, 0, 5)], locs[rt.P(l2, 0, 5)]][:nblk]
    b = rt.P(beh, 0, 1)
    reps = [rt.B(r0), rt.B(r1), rt.B(r2)][:nblk]
    H.serialize = rt.B(ser)

    def run() -> 'str | None':
        from bqskit.ir.gates import CNOTGate, RZGate, U3Gate
        inner = Circuit(2)
        inner.append_gate(U3Gate(), 0, [0.125, 0.25, 0.375])
        inner.append_gate(CNOTGate(), (0, 1))
        inner.append_gate(RZGate(), 1, [0.5])
        g = CircuitGate(inner)
        circ = Circuit(3)
        pars = [[1.0 + 16.0 * i + j / 8.0 for j in range(4)] for i in range(nblk)]
        for i in range(nblk):
            circ.append_gate(g, picks[i], pars[i])
        _SHARED['beh'], _SHARED['seen'], _SHARED['rep'] = b, [], list(reps)
        data = PassData(circ)
        try:
            K.drive(Workflow([ForEachBlockPass([SharedBody()], replace_filter=_shared_rf)]).run(circ, data))
        except Exception as e:  # noqa
            rt.log('raised', repr(e))
            return 'fe-shared:exception:%s' % type(e).__name__
        got = [(tuple(op.location), [float(x) for x in op.params]) for op in circ]
        want = [(tuple(picks[i]), [x + 1.0 for x in pars[i]] if (b == 1 and reps[i]) else pars[i]) for i in range(nblk)]
        rt.log('blocks', picks, 'behaviour', ['identity', 'params+1'][b], 'replace', reps, 'serialize', H.serialize)
        rt.log('bodies saw', _SHARED['seen'])
        rt.log('after', got)
        if _SHARED['seen'] != pars:
            return 'fe-shared:body-ran-on-another-blocks-parameters'
        if got != want:
            return 'fe-shared:write-back'
        return None
    fp = rt.nt(run)
    rt.reach()
    return True if fp is None else rt.fail(fp)


def feshared(k: int, l1: int, l2: int, beh: int, r0: bool, r1: bool, r2: bool, ser: bool) -> bool:
    """
    post: _
    """
    return _fe_shared_body(k, l1, l2, beh, r0, r1, r2, ser)


# =========================================================================== entries
def fe(x0: int, x1: int, x2: int, x3: int, x4: int, x5: int, x6: int, x7: int, x8: int, x9: int, x10: int,
       x11: int, x12: int, x13: int, x14: int, x15: int, x16: int, x17: int, x18: int, x19: int, x20: int,
       x21: int, x22: int, x23: int, x24: int, x25: int, x26: int, x27: int, x28: int, x29: int, x30: int,
       x31: int, x32: int, x33: int, x34: int, x35: int) -> bool:
    """
    post: _
    """
    return rt.nt(fe_run, [x0, x1, x2, x3, x4, x5, x6, x7, x8, x9, x10, x11, x12, x13, x14, x15, x16, x17, x18, x19, x20,
                   x21, x22, x23, x24, x25, x26, x27, x28, x29, x30, x31, x32, x33, x34, x35])


def ctl(x0: int, x1: int, x2: int, x3: int, x4: int, x5: int, x6: int, x7: int, x8: int, x9: int, x10: int,
        x11: int, x12: int, x13: int, x14: int, x15: int, x16: int, x17: int, x18: int, x19: int, x20: int,
        x21: int, x22: int, x23: int, x24: int, x25: int, x26: int, x27: int, x28: int, x29: int, x30: int,
        x31: int, x32: int, x33: int, x34: int, x35: int) -> bool:
    """
    post: _
    """
    return rt.nt(ctl_run, [x0, x1, x2, x3, x4, x5, x6, x7, x8, x9, x10, x11, x12, x13, x14, x15, x16, x17, x18, x19, x20,
                    x21, x22, x23, x24, x25, x26, x27, x28, x29, x30, x31, x32, x33, x34, x35])


G1 = ['leaf', 'if', 'while', 'dowhile']
G2 = ['dtd', 'seq', 'foreach']
G3 = ['pardo', 'pardof']


def obligations(tier: str) -> list[dict]:
    obs: list = []

    def ob(name: str, func: str, shard: dict, timeout: int) -> None:
        obs.append({'name': name, 'func': func, 'shard': shard, 'timeout': timeout})

    outers = ['if', 'while', 'dowhile', 'dtd', 'pardo', 'pardof', 'pardo3', 'seq', 'foreach']
    ALLB = [B_ID, B_SAME, B_FEWER, B_MORE, B_EMPTY, B_RAISE]
    if tier == 'quick':
        T = 300
        for first in ['B1', 'B2', 'B3', 'T1', 'T2']:
            ob('fe/2items/%s,?' % first, 'fe', {'W': 3, 'items': first + ',?', 'locs': 'mixed', 'behs': [B_MORE]}, T)
        ob('fe/3items/structure', 'fe', {'W': 3, 'items': 'B,B,B', 'maxw': 2, 'rf': 'always', 'collect': 'default',
                                         'behs': [B_EMPTY]}, T)
        ob('fe/3items/filter-bits', 'fe', {'W': 3, 'items': 'B,?,B', 'maxw': 2, 'locs': 'first', 'behs': [B_MORE]}, T)
        ob('fe/behaviours/1block', 'fe', {'W': 3, 'items': 'B', 'locs': 'all', 'nshapes': 2, 'behs': ALLB}, T)
        ob('fe/behaviours/params/1block', 'fe', {'W': 3, 'items': 'B', 'locs': 'all', 'nshapes': 2, 'pgates': True,
                                                  'behs': [B_ID, B_PARAMS, B_SAME]}, T)
        ob('fe/behaviours/params/2items', 'fe', {'W': 3, 'items': '?,B', 'locs': 'first', 'pgates': True,
                                                  'behs': [B_ID, B_PARAMS]}, T)
        ob('fe/shared-gate-object/2-3blocks', 'feshared', {}, T)
        ob('fe/behaviours/2blocks', 'fe', {'W': 3, 'items': 'B,B', 'locs': 'first', 'behs': ALLB}, T)
        ob('fe/less-than', 'fe', {'W': 3, 'items': 'B,B', 'locs': 'first', 'nshapes': 2, 'rf': 'less-than',
                                  'collect': 'default', 'behs': ALLB[:5]}, T)
        ob('fe/always/shipped-results', 'fe', {'W': 3, 'items': 'B,B', 'rf': 'always', 'ship': True,
                                               'behs': [B_SAME, B_EMPTY, B_RAISE]}, T)
        ob('fe/submodel', 'fe', {'W': 3, 'items': 'B', 'locs': 'all', 'model': 'sym', 'M': 3, 'collect': 'default',
                                 'rf': 'always', 'behs': [B_ID]}, T)
        for o in outers:
            if o == 'dowhile':
                for gname, g in (('G1', G1), ('G2', G2)):
                    ob('ctl/dowhile/%s' % gname, 'ctl', {'outer': o, 'preds': ['s', 'n'], 'inner': g}, T)
                for g in ('pardo', 'pardof'):
                    for pk in ('s', 'n'):
                        ob('ctl/dowhile/%s/%s' % (g, pk), 'ctl', {'outer': o, 'preds': [pk], 'inner': [g]}, T)
            else:
                ob('ctl/%s' % o, 'ctl', {'outer': o, 'preds': ['s', 'n']}, T)
        ob('ctl/pardof3/leaves', 'ctl', {'outer': 'pardof3', 'preds': ['s'], 'depth': 1}, T)
        for o in ['while', 'dowhile', 'if']:
            ob('ctl/%s/real-predicates' % o, 'ctl', {'outer': o, 'preds': ['a', 'o', 'c', 'g'],
                                                    'inner': ['leaf', 'dtd', 'seq', 'foreach']}, T)
    else:
        T = 3000
        for first in ['B1', 'B2', 'B3', 'T1', 'T2', 'T3']:
            ob('fe/2items/%s,?/W3' % first, 'fe', {'W': 3, 'items': first + ',?', 'locs': 'all', 'nshapes': 2,
                                                   'behs': [B_MORE, B_EMPTY]}, T)
            ob('fe/2items/%s,?/W4' % first, 'fe', {'W': 4, 'items': first + ',?', 'locs': 'mixed', 'behs': [B_MORE]}, T)
        for first in ['B1', 'B2', 'T1', 'T2']:
            ob('fe/3items/%s,?,B' % first, 'fe', {'W': 3, 'items': first + ',?,B', 'maxw': 2, 'locs': 'mixed',
                                                  'collect': 'default', 'behs': [B_EMPTY]}, T)
            ob('fe/3items/%s,B,B/W4' % first, 'fe', {'W': 4, 'items': first + ',B,B', 'rf': 'always',
                                                     'collect': 'default', 'behs': [B_MORE]}, T)
        ob('fe/4items', 'fe', {'W': 3, 'items': 'B,B,B,B', 'maxw': 2, 'rf': 'always', 'collect': 'default',
                               'behs': [B_EMPTY]}, T)
        ob('fe/4items/filter-bits', 'fe', {'W': 3, 'items': 'B,?,B,B', 'maxw': 2, 'locs': 'first', 'collect': 'default',
                                           'behs': [B_MORE]}, T)
        ob('fe/behaviours/1block', 'fe', {'W': 4, 'items': 'B', 'locs': 'all', 'nshapes': 2, 'behs': ALLB}, T)
        ob('fe/behaviours/2blocks', 'fe', {'W': 3, 'items': 'B,B', 'locs': 'sorted', 'nshapes': 2, 'behs': ALLB,
                                           'collect': 'default'}, T)
        ob('fe/behaviours/3blocks', 'fe', {'W': 3, 'items': 'B,B,B', 'locs': 'first', 'maxw': 2,
                                           'behs': [B_ID, B_FEWER, B_MORE, B_EMPTY, B_RAISE], 'collect': 'default'}, T)
        ob('fe/less-than', 'fe', {'W': 3, 'items': 'B,B,B', 'locs': 'first', 'nshapes': 2, 'rf': 'less-than', 'maxw': 2,
                                  'collect': 'default', 'behs': ALLB[:5]}, T)
        ob('fe/always/shipped-results', 'fe', {'W': 3, 'items': 'B,?,B', 'locs': 'first', 'rf': 'always', 'ship': True,
                                               'maxw': 2, 'behs': [B_SAME, B_EMPTY, B_RAISE]}, T)
        ob('fe/submodel/M4', 'fe', {'W': 3, 'items': 'B', 'locs': 'all', 'model': 'sym', 'M': 4, 'collect': 'default',
                                    'rf': 'always', 'behs': [B_ID]}, T)
        ob('fe/submodel/M3/2blocks', 'fe', {'W': 3, 'items': 'B,B', 'locs': 'all', 'model': 'sym', 'M': 3,
                                            'collect': 'default', 'rf': 'always', 'behs': [B_ID]}, T)
        for o in outers + ['pardof3']:
            for gname, g in (('G1', G1), ('G2', G2), ('G3', G3)):
                ob('ctl/%s/%s' % (o, gname), 'ctl', {'outer': o, 'preds': ['s', 'n'], 'inner': g, 'nest_all': o not in ('pardo3', 'pardof3'),
                                                     'max_script': 5 if o in ('if', 'dtd', 'seq', 'foreach') else 4}, T)
            ob('ctl/%s/shipped-results' % o, 'ctl', {'outer': o, 'preds': ['s'], 'ship': True,
                                                     'depth': 1 if o == 'pardof3' else 2}, T)
        for o in ['while', 'dowhile', 'if']:
            ob('ctl/%s/real-predicates' % o, 'ctl', {'outer': o, 'preds': ['a', 'o', 'c', 'g'], 'nest_all': True}, T)
    obs.append({'name': 'err/bound', 'func': 'err_direct', 'shard': {}, 'timeout': 120, 'kind': 'direct'})
    return obs
