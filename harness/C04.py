"""C04 - Circuit editing calls have their documented effect on program order."""
from __future__ import annotations

from harness import C05 as _c05
from harness.circ_entry import *  # noqa: F401,F403

PROPERTY = 'C04'
LEVEL = 'model_checking'
ENCODED = _c05.ENCODED
ASSUMPTIONS = _c05.ASSUMPTIONS + [
    'reference model = per-qudit timelines read from the real circuit before the call + the documented effect of '
    'the call (harness/circ_common.py:do_call/model_insert); equal timelines with unique tags and equal location '
    'order imply the same dependency DAG, hence the same unitary (numeric matrices are not computed here)',
]
BOUNDS = _c05.BOUNDS
OUTSIDE = _c05.OUTSIDE


def obligations(tier: str) -> list[dict]:
    return _c05.obligations(tier, 'order')
