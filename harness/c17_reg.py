"""C17 family (G): register arithmetic of the OpenQASM 2 decoder.

g_offsets : the real `convert_qubit_id_to_first_index`, `convert_qubit_ids_to_indices`
            (and `convert_qubit_id_to_indices` for whole registers) executed under CrossHair with
            SYMBOLIC register sizes and qubit indices (the parse tree is produced by the real
            parser from a text with placeholder numbers; the number tokens are then replaced by the
            symbolic integers - `int(token)` is what the visitor applies to them; the register
            table holds symbolic sizes). Sizes are unbounded (< 2^20) except for registers that
            are expanded with `range(size)`.
g_stmt    : whole programs (several qreg, one statement of each kind) through the real
            `decode`; every integer is split at the harness boundary (CircuitLocation hashes its
            entries, so nothing past the index arithmetic can stay symbolic), decode runs natively.

Reference (OpenQASM 2): qubit j of the r-th declared register is flat qubit sum(sizes[:r]) + j.
"""
from __future__ import annotations

from typing import Any

from vf import rt

NAMES = ['a', 'b', 'c']
HEAD = 'OPENQASM 2.0;\ninclude "qelib1.inc";\n'
BIG = 1 << 20


def items_text(pattern: str, regs: list[int], idx: list[Any]) -> str:
    out = []
    for k, ch in enumerate(pattern):
        out.append('%s[%s]' % (NAMES[regs[k]], idx[k]) if ch == 'I' else NAMES[regs[k]])
    return ','.join(out)


def ref_indices(sizes: list[Any], pattern: str, regs: list[int], idx: list[Any]) -> list[Any]:
    off = [0]
    for s in sizes:
        off.append(off[-1] + s)
    out: list[Any] = []
    for k, ch in enumerate(pattern):
        r = regs[k]
        if ch == 'I':
            out.append(off[r] + idx[k])
        else:
            for i in range(sizes[r]):
                out.append(off[r] + i)
    return out


def _replace_numbers(tree: Any, table: dict[str, Any]) -> None:
    import lark
    for sub in tree.iter_subtrees():
        for i, c in enumerate(sub.children):
            if isinstance(c, lark.Token) and c.type == 'NNINTEGER' and str(c) in table:
                sub.children[i] = table[str(c)]


def _parse(text: str) -> Any:
    from bqskit.ir.lang.qasm2.parser import parse
    return parse(text)


def g_offsets(k0: int, s0: int, s1: int, s2: int, j0: int, j1: int, j2: int, r0: int, r1: int, r2: int) -> bool:
    """post: _"""
    rt.begin()
    S = rt.SHARD['cases'][rt.P(k0, 0, len(rt.SHARD['cases']) - 1)]
    nreg, pattern = S['nreg'], S['pattern']
    k = len(pattern)
    regs = []
    for i, x in enumerate([r0, r1, r2][:k]):
        regs.append(S['regs'][i] if S.get('regs') else rt.P(x, 0, nreg - 1))
    sizes: list[Any] = []
    for r, s in enumerate([s0, s1, s2][:nreg]):
        whole = any(pattern[i] == 'W' and regs[i] == r for i in range(k))
        if whole:
            sizes.append(rt.P(s, 1, S['wmax']))          # range(size) unrolls: split
        else:
            if s < 1 or s > BIG:
                return True
            sizes.append(s)                              # stays symbolic
    idx: list[Any] = []
    for i, j in enumerate([j0, j1, j2][:k]):
        if pattern[i] == 'I':
            if j < 0 or j >= sizes[regs[i]]:
                return True
            idx.append(j)
        else:
            idx.append(0)
    # real parser on the text with placeholders, natively (concrete text)
    text = HEAD + ''.join('qreg %s[%d];\n' % (NAMES[r], 101 + r) for r in range(nreg))
    text += 'barrier %s;\n' % items_text(pattern, regs, [201 + i for i in range(k)])
    tree = rt.nt(_parse, text)
    table = {str(101 + r): sizes[r] for r in range(nreg)}
    table.update({str(201 + i): idx[i] for i in range(k)})
    rt.nt(_replace_numbers, tree, table)
    from bqskit.ir.lang.qasm2.visitor import OPENQASMVisitor, QubitReg
    v = rt.nt(OPENQASMVisitor)
    blist = [t for t in tree.iter_subtrees_topdown() if t.data == 'barrier'][0].children[-1]
    # The register table is filled by the harness: the real `qreg` formats the size into a log
    # message ('%d' % size), which makes CrossHair enumerate the size value by value; `qreg`
    # itself (int(token), redeclaration check, append) is exercised by g_stmt with split sizes.
    for r in range(nreg):
        v.qubit_regs.append(QubitReg(NAMES[r], sizes[r]))
    try:
        firsts = [v.convert_qubit_id_to_first_index(NAMES[r]) for r in range(nreg)]
        got = v.convert_qubit_ids_to_indices(blist)      # real code, symbolic sizes / indices
    except Exception as e:   # noqa
        rt.reach()
        if rt.CONCRETE:
            rt.log('program', repr(text), 'sizes', sizes, 'indices', idx, 'raised', repr(e))
        return rt.fail('G:list:raises:%s' % type(e).__name__)
    rt.reach()
    off = 0
    for r in range(nreg):
        if firsts[r] != off:
            if rt.CONCRETE:
                rt.log('first index of register', NAMES[r], '=', firsts[r], 'expected', off)
            return rt.fail('G:first-index')
        off = off + sizes[r]
    total = off
    exp = ref_indices(sizes, pattern, regs, idx)
    if len(got) != len(exp):
        return rt.fail('G:list:length')
    for g, e in zip(got, exp):
        if g != e or g < 0 or g >= total:
            if rt.CONCRETE:
                rt.log('list', items_text(pattern, regs, idx), 'sizes', sizes, '->', got, 'expected', exp)
            return rt.fail('G:list:index')
    return True


# ----------------------------------------------------------------------------- whole statements
def _decode(text: str) -> Any:
    from bqskit.ir.lang.language import LangException
    from bqskit.ir.lang.qasm2 import OPENQASM2Language
    try:
        circ = OPENQASM2Language().decode(text)
    except LangException as e:
        return ('lang', str(e))
    except Exception as e:  # noqa
        return ('crash', type(e).__name__ + ': ' + str(e)[:120])
    ops = []
    for op in circ:
        extra = None
        m = getattr(op.gate, 'measurements', None)
        if m is not None:
            extra = tuple(sorted((int(q), str(c), int(i)) for q, (c, i) in m.items()))
        ops.append((type(op.gate).__name__, tuple(int(q) for q in op.location), extra))
    return ('ok', circ.num_qudits, ops)


def timelines(n: int, ops: list[tuple]) -> list[list[tuple]]:
    tl: list[list[tuple]] = [[] for _ in range(n)]
    for op in ops:
        for q in op[1]:
            if 0 <= q < n:
                tl[q].append(op)
    return tl


GATE1 = {'h': 'HGate', 'x': 'XGate'}
GATE2 = {'cx': 'CNOTGate', 'swap': 'SwapGate', 'cz': 'CZGate'}
GATE3 = {'ccx': 'CCXGate'}


def stmt_case(S: dict, sizes: list[int], regs: list[int], idx: list[int], cidx: int) -> tuple | None:
    """(statement text, extra declarations, expected ops | None, broadcast?)  None = not a valid program."""
    stmt, pattern = S['stmt'], S['pattern']
    off = [0]
    for s in sizes:
        off.append(off[-1] + s)
    flat = ref_indices(sizes, pattern, regs, idx)
    items = items_text(pattern, regs, idx)
    decl = ''
    if stmt == 'barrier':
        if len(set(flat)) != len(flat):
            return None
        return 'barrier %s;' % items, decl, [('BarrierPlaceholder', tuple(flat), None)], False
    if stmt in GATE1 or stmt in GATE2 or stmt in GATE3 or stmt in ('CX', 'U'):
        cls = {**GATE1, **GATE2, **GATE3, 'CX': 'CNOTGate', 'U': 'U3Gate'}[stmt]
        text = {'CX': 'CX %s;', 'U': 'U(0.1,0.2,0.3) %s;'}.get(stmt, stmt + ' %s;') % items
        per = []     # per operand: list of flat qubits
        for k, ch in enumerate(pattern):
            r = regs[k]
            per.append([off[r] + idx[k]] if ch == 'I' else [off[r] + i for i in range(sizes[r])])
        if 'W' not in pattern:
            loc = tuple(p[0] for p in per)
            if len(set(loc)) != len(loc):
                return None
            return text, decl, [(cls, loc, None)], False
        ns = {len(p) for p, ch in zip(per, pattern) if ch == 'W'}
        if len(ns) != 1:
            return None                      # registers of different sizes: not a valid broadcast
        n = ns.pop()
        ops = []
        for i in range(n):
            loc = tuple(p[i] if ch == 'W' else p[0] for p, ch in zip(per, pattern))
            if len(set(loc)) != len(loc):
                return None
            ops.append((cls, loc, None))
        return text, decl, ops, True
    if stmt == 'measure':
        r = regs[0]
        if pattern == 'I':
            decl = 'creg m[%d];\ncreg k[%d];\n' % (2, 3)
            q = off[r] + idx[0]
            return ('measure %s -> k[%d];' % (items, cidx), decl,
                    [('MeasurementPlaceholder', (q,), ((q, 'k', cidx),))], False)
        decl = 'creg m[2];\ncreg k[%d];\n' % sizes[r]
        qs = [off[r] + i for i in range(sizes[r])]
        return ('measure %s -> k;' % items, decl,
                [('MeasurementPlaceholder', tuple(qs), tuple((q, 'k', i) for i, q in enumerate(qs)))], False)
    if stmt == 'reset':
        return 'reset %s;' % items, decl, [('Reset', (q,), None) for q in flat], False
    raise AssertionError(stmt)


@rt.natively
def _g_stmt_body(k0: int, s0: int, s1: int, s2: int, j0: int, j1: int, j2: int, r0: int, r1: int, r2: int, c0: int) -> bool:
    rt.begin()
    S = rt.SHARD['cases'][rt.P(k0, 0, len(rt.SHARD['cases']) - 1)]
    nreg, pattern = S['nreg'], S['pattern']
    k = len(pattern)
    fixed = S.get('regs')
    regs: list[int] = []
    for i, x in enumerate([r0, r1, r2][:k]):
        regs.append(fixed[i] if fixed else rt.P(x, 0, nreg - 1))
    sizes = [rt.P(s, 1, S['smax']) for s in [s0, s1, s2][:nreg]]
    idx = []
    for i, j in enumerate([j0, j1, j2][:k]):
        idx.append(rt.P(j, 0, sizes[regs[i]] - 1) if pattern[i] == 'I' else 0)
    cidx = rt.P(c0, 0, 2) if (S['stmt'] == 'measure' and pattern == 'I') else 0
    case = stmt_case(S, sizes, regs, idx, cidx)
    if case is None:
        return True
    stext, decl, exp, broadcast = case
    text = HEAD + ''.join('qreg %s[%d];\n' % (NAMES[r], sizes[r]) for r in range(nreg)) + decl + stext + '\n'
    res = rt.nt(_decode, text)
    rt.reach()
    if rt.CONCRETE:
        rt.log('program:', repr(text))
        rt.log('decoded:', res)
        rt.log('expected:', sum(sizes), exp)
    fam = 'gate' if S['stmt'] in GATE1 or S['stmt'] in GATE2 or S['stmt'] in GATE3 else S['stmt']
    if broadcast:
        fam += '-broadcast'
    if res[0] == 'lang':
        if broadcast:
            return True          # register broadcast of gates: rejected cleanly (ASSUMPTIONS)
        return rt.fail('G:%s:rejects-valid-program' % fam)
    if res[0] == 'crash':
        return rt.fail('G:%s:raises:%s' % (fam, res[1].split(':')[0]))
    _, n, ops = res
    total = sum(sizes)
    if n != total:
        return rt.fail('G:%s:num-qubits' % fam)
    if [(g, l) for g, l, _ in ops] != [(g, l) for g, l, _ in exp] and \
            timelines(total, [(g, l) for g, l, _ in ops]) != timelines(total, [(g, l) for g, l, _ in exp]):
        return rt.fail('G:%s:location' % fam)
    if sorted(o[2] for o in ops if o[2] is not None) != sorted(e[2] for e in exp if e[2] is not None):
        return rt.fail('G:%s:measurement-key' % fam)
    return True


def g_stmt(k0: int, s0: int, s1: int, s2: int, j0: int, j1: int, j2: int, r0: int, r1: int, r2: int, c0: int) -> bool:
    """post: _"""
    return _g_stmt_body(k0, s0, s1, s2, j0, j1, j2, r0, r1, r2, c0)


