"""Shared scaffolding for the runtime harnesses C15 (scheduler bookkeeping) and C13 (request histories).

Real node objects (`DetachedServer`, `Manager`) are built with `Cls.__new__(Cls)` and their fields are set
directly (the constructors open sockets / spawn processes). Connections are `FakeConn` objects; the node's
`outgoing` queue is replaced by `Outbox`, whose `put((conn, msg, payload))` appends `(msg, payload)` to
`conn.sent` (the real outgoing thread does exactly `conn.send((msg, payload))` unless the connection is closed).

Only harness-side stand-ins live here - nothing re-implements code under test.
"""
from __future__ import annotations

import logging
from typing import Any

from vf import rt

import bqskit.runtime.base as base_mod
from bqskit.runtime.address import RuntimeAddress
from bqskit.runtime.base import RuntimeEmployee
from bqskit.runtime.task import RuntimeTask

logging.disable(logging.CRITICAL)


class FakeConn:
    """A connection end: everything the node sends on it is appended to `sent`."""

    def __init__(self, name: str, idx: int) -> None:
        self.name = name
        self.idx = idx
        self.sent: list[tuple[Any, Any]] = []
        self.closed = False

    def send(self, obj: Any) -> None:
        if self.closed:
            raise OSError('handle is closed')
        self.sent.append(obj)

    def recv(self) -> Any:
        raise EOFError

    def poll(self, timeout: float = 0.0) -> bool:
        return False

    def close(self) -> None:
        self.closed = True

    def __hash__(self) -> int:
        return self.idx

    def __eq__(self, other: object) -> bool:
        return self is other

    def __repr__(self) -> str:
        return '<conn %s>' % self.name


class Outbox:
    """Stand-in for ServerBase.outgoing + the outgoing thread (send_outgoing): FIFO, skips closed conns."""

    def __init__(self) -> None:
        self.log: list[tuple[FakeConn, Any, Any]] = []

    def put(self, item: Any) -> None:
        conn, msg, payload = item
        self.log.append((conn, msg, payload))
        if conn.closed:      # send_outgoing: `if outgoing[0].closed: continue`
            return
        conn.sent.append((msg, payload))

    def task_done(self) -> None:
        pass


class FakeSel:
    def __init__(self) -> None:
        self.registered: list[Any] = []
        self.unregistered: list[Any] = []
        self.closed = False

    def register(self, conn: Any, ev: Any = None, data: Any = None) -> None:
        self.registered.append(conn)

    def unregister(self, conn: Any) -> None:
        self.unregistered.append(conn)

    def close(self) -> None:
        self.closed = True


class FakeThread:
    def is_alive(self) -> bool:
        return False


def make_task(worker: int, mailbox: int, slot: int = 0) -> RuntimeTask:
    """A real RuntimeTask object without running its constructor (which pickles fnargs)."""
    t = RuntimeTask.__new__(RuntimeTask)
    t.task_id = mailbox
    t.return_address = RuntimeAddress(worker, mailbox, slot)
    t.comp_task_id = 0
    t.breadcrumbs = ()
    t._name = 't%d_%d' % (worker, mailbox)
    t.logging_level = 0
    t.max_logging_depth = -1
    return t


def make_employee(i: int, total: Any, idle: Any, ntasks: Any, is_manager: bool = False) -> RuntimeEmployee:
    e = RuntimeEmployee.__new__(RuntimeEmployee)
    e.id = i
    e.conn = FakeConn('emp%d' % i, 100 + i)
    e.total_workers = total
    e.process = None
    e.num_tasks = ntasks
    e.num_idle_workers = idle
    e.is_manager = is_manager
    e.submit_cache = []
    return e


def init_node(node: Any, employees: list, lower: int = 0, step: int = 1) -> Any:
    """Fields that ServerBase.__init__/connect_to_* would have set."""
    node.lower_id_bound = lower
    node.upper_id_bound = lower + step * max(len(employees), 1)
    node.step_size = step
    node.running = True
    node.sel = FakeSel()
    node.employees = list(employees)
    node.conn_to_employee_dict = {e.conn: e for e in employees}
    node.outgoing = Outbox()
    node.outgoing_thread = FakeThread()
    node.total_workers = sum(e.total_workers for e in employees)
    node.num_idle_workers = sum(e.num_idle_workers for e in employees)
    return node


# --------------------------------------------------------------------------------------------------
# Harness-controlled randomness (module global `random` of bqskit.runtime.base)
# --------------------------------------------------------------------------------------------------
class Rep:
    """Model of `[v] * n` / list concatenation for a *symbolic, unbounded* n (registered with CrossHair for
    `list * SymbolicInt`, see install_symbolic_list_repeat): a concrete head followed by (value, count) runs.
    Supports exactly what assign_tasks does with idle_id_repeated_list: +, len(), iteration."""

    def __init__(self, head: list, tail: list) -> None:
        self.head = list(head)
        self.tail = list(tail)

    def __radd__(self, other: Any) -> 'Rep':
        return Rep(list(other) + self.head, self.tail)

    def __add__(self, other: Any) -> 'Rep':
        oh, ot = (other.head, other.tail) if isinstance(other, Rep) else (list(other), [])
        if self.tail:
            return Rep(self.head, self.tail + [(v, 1) for v in oh] + ot)
        return Rep(self.head + oh, ot)

    def __len__(self) -> Any:
        n = len(self.head)
        for _, c in self.tail:
            n = n + c
        return n

    def __iter__(self) -> Any:
        for v in self.head:
            yield v
        for v, c in self.tail:
            k = 0
            while k < c:
                yield v
                k += 1


_REP_INSTALLED = [False]


def install_symbolic_list_repeat() -> None:
    """Teach CrossHair that `[v] * n` with a symbolic int n is a Rep (instead of realising n, which would
    enumerate 0, 1, 2, ... forever). No effect on the plain interpreter."""
    if _REP_INSTALLED[0] or rt.CONCRETE:
        return
    try:
        import operator
        from crosshair.libimpl import builtinslib as B
    except Exception:
        return

    def _list_repeat(op: Any, a: list, b: B.SymbolicInt) -> Any:
        if len(a) != 1:
            return NotImplemented
        if b <= 0:
            return []
        return Rep([], [(a[0], b)])
    _list_repeat.__annotations__ = {'op': Any, 'a': list, 'b': B.SymbolicInt}
    B.setup_binop(_list_repeat, {operator.mul})

    def _list_repeat_r(op: Any, a: B.SymbolicInt, b: list) -> Any:   # SymbolicIntable.__rmul__ is __mul__
        return _list_repeat(op, b, a)
    _list_repeat_r.__annotations__ = {'op': Any, 'a': B.SymbolicInt, 'b': list}
    B.setup_binop(_list_repeat_r, {operator.mul})
    for k in [k for k in B._BIN_OPS if k[0] is operator.mul]:
        del B._BIN_OPS[k]
    _REP_INSTALLED[0] = True


class SkipPath(Exception):
    """The path belongs to another shard of the same shape."""


class StubRandom:
    """Replaces `random` in bqskit.runtime.base. shuffle(): the outcome of the permutation on the first
    `limit` positions (all the code reads, through zip with the task list) is chosen by the harness from
    `choices` (every feasible prefix is a choice); random(): successive harness-provided tie-break values."""

    def __init__(self) -> None:
        self.limit = 0
        self.pin: 'str | None' = None      # 'low' / 'high': deterministic shuffle outcome (L23 only)
        self.fixed: list = []
        self.choices: list = []
        self.rvals: list = []
        self.rpos = 0
        self.shuffles = 0
        self.prefix: list = []

    def reset(self, limit: int, choices: list, rvals: list, fixed: 'list | None' = None) -> None:
        """fixed: the first shuffle choices are pinned by the obligation's shard (parallelisation only: the shards
        of one shape together cover every choice; a pinned index that does not exist on a path skips the path)."""
        self.limit, self.choices, self.rvals = limit, list(choices), list(rvals)
        self.fixed = list(fixed or [])
        self.pin = None
        self.rpos = 0
        self.shuffles = 0
        self.prefix = []

    def shuffle(self, x: Any) -> None:
        self.shuffles += 1
        if isinstance(x, Rep):
            head, tail = x.head, x.tail
        else:
            head, tail = list(x), []
        values: list = []
        cnt: dict = {}
        for v in head:
            if v not in cnt:
                values.append(v)
                cnt[v] = 0
            cnt[v] += 1
        for v, c in tail:
            if v not in cnt:
                values.append(v)
                cnt[v] = 0
            cnt[v] = cnt[v] + c
        values.sort()
        prefix: list = []
        for k in range(self.limit):
            cands = [v for v in values if cnt[v] > 0]
            if not cands:
                break
            if self.pin is not None:
                v = cands[0] if self.pin == 'low' else cands[-1]
            elif k < len(self.fixed):
                if self.fixed[k] > len(cands) - 1:
                    raise SkipPath()
                v = cands[self.fixed[k]]
            else:
                ch = self.choices[k] if k < len(self.choices) else 0
                v = cands[rt.P(ch, 0, len(cands) - 1)]
            prefix.append(v)
            cnt[v] = cnt[v] - 1
        self.prefix = prefix
        if isinstance(x, Rep):
            x.head = prefix
            x.tail = [(v, cnt[v]) for v in values]
        else:
            rest: list = []
            for v in values:
                rest += [v] * cnt[v]
            x[:] = prefix + rest

    def random(self) -> Any:
        v = self.rvals[self.rpos] if self.rpos < len(self.rvals) else 0
        self.rpos += 1
        return v


STUB = StubRandom()
base_mod.random = STUB  # type: ignore


class TaskSeq(list):
    """A list whose slicing accepts symbolic (unbounded) bounds: the bound is clamped to [0, len] by
    comparisons (a solver-decided ladder), exactly as Python clamps slice indices. The real code's
    parameter type is Sequence[RuntimeTask]."""

    def __getitem__(self, key: Any) -> Any:
        if isinstance(key, slice):
            assert key.step is None
            n = len(self)
            a = _clamp(key.start, n, 0)
            b = _clamp(key.stop, n, n)
            return TaskSeq(list.__getitem__(self, slice(a, b)))
        return list.__getitem__(self, key)


def _clamp(v: Any, n: int, default: int) -> int:
    if v is None:
        return default
    if v < 0:
        v = v + n
    for k in range(n):
        if v <= k:
            return k
    return n


def reset_globals() -> None:
    RuntimeTask.task_counter = 0
