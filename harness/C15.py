"""C15 - scheduler bookkeeping stays in bounds and assigns every task exactly once.

Part A (this file, functions l1_* .. l4_*): inductive lemmas on the REAL arithmetic of
bqskit.runtime.base / manager / detached. One call of the real function from an ARBITRARY state that
satisfies the invariant

    I  ==  node.num_idle_workers == sum(e.num_idle_workers)  and  node.total_workers == sum(e.total_workers)
           and for every employee e:  0 <= e.num_idle_workers <= e.total_workers  and  e.num_tasks >= 0

with the integer counters symbolic and UNBOUNDED (no range is imposed on them; z3 decides every comparison
the real code makes); only shapes are bounded (employees, batch length, cache length).

Part B (whole-protocol simulation) is appended by `part_b(tier)` - see obligations().
"""
from __future__ import annotations

from typing import Any

from vf import rt

from harness.c15_fakes import STUB, FakeConn, SkipPath, TaskSeq, init_node, install_symbolic_list_repeat, make_employee, \
    make_task, reset_globals

from bqskit.runtime.address import RuntimeAddress
from bqskit.runtime.detached import DetachedServer, ServerMailbox
from bqskit.runtime.direction import MessageDirection
from bqskit.runtime.manager import Manager
from bqskit.runtime.message import RuntimeMessage
from bqskit.runtime.result import RuntimeResult

PROPERTY = 'C15'
LEVEL = 'model_checking'   # Part A alone: integers unbounded, shapes bounded (DESIGN.md calls that level 'proof')
ENCODED = [
    'bqskit.runtime.base:ServerBase.assign_tasks', 'bqskit.runtime.base:ServerBase.schedule_tasks',
    'bqskit.runtime.base:ServerBase.handle_waiting', 'bqskit.runtime.base:RuntimeEmployee.get_num_of_tasks_sent_since',
    'bqskit.runtime.base:ServerBase.{send_result_down,is_my_worker,get_employee_responsible_for}',
    'bqskit.runtime.manager:Manager.send_up_or_schedule_tasks', 'bqskit.runtime.manager:Manager.update_upstream_idle_workers',
    'bqskit.runtime.manager:Manager.handle_update', 'bqskit.runtime.manager:Manager.handle_result_from_below',
    'bqskit.runtime.manager:Manager.handle_message (ABOVE: SUBMIT, SUBMIT_BATCH; BELOW: SUBMIT, SUBMIT_BATCH, RESULT, '
    'WAITING, UPDATE)',
    'bqskit.runtime.detached:DetachedServer.handle_message (BELOW: UPDATE, RESULT, WAITING, SUBMIT_BATCH)',
    'bqskit.runtime.detached:DetachedServer.handle_result',
]
ASSUMPTIONS = [
    'nodes are built with __new__ and fields set directly; connections are fake objects; ServerBase.outgoing is a '
    'queue stand-in whose put() appends (msg, payload) to the fake connection (what send_outgoing does)',
    'random.shuffle in bqskit.runtime.base is replaced by a stub that lets the solver choose ANY arrangement of the '
    'first len(tasks) positions of the idle list (all that assign_tasks reads: zip with the task list, and len()); '
    'random.random returns solver-chosen integers (the code only compares them; ties allowed)',
    '`[i] * e.num_idle_workers` with a symbolic unbounded count is modelled by harness.c15_fakes.Rep (a run-length '
    'sequence supporting +, len, iteration) registered with CrossHair for list*SymbolicInt; the task batch is a list '
    'subclass whose slice bounds may be symbolic (clamped by comparisons exactly as Python clamps slices)',
    'L3 precondition: 0 <= new_idle_count <= employee.total_workers (workers send 1 with total_workers 1; managers '
    'send their own num_idle_workers, which L2/L3/L4 keep inside [0, total_workers]) and the receipt is None or an '
    'id still in the cache (per-channel FIFO: receipts are non-decreasing positions of batches sent, and '
    'get_num_of_tasks_sent_since only trims entries before the last receipt - checked by the L23 sequence lemma)',
    'L4 sender contract: an UPDATE diff and a RESULT refer to tasks outstanding below the employee (ghost count g_e '
    'with e.num_tasks >= g_e >= 0); RESULT.completed_by is a worker id inside the node\'s id range',
    'batch counts in a pre-existing submit cache are arbitrary integers >= 0',
]
BOUNDS = {
    'quick': 'integers unbounded; <=3 employees; L1/L2 batches <=6 tasks with 1-2 employees, <=3 with 3 employees (L1: <=2); '
             'submit cache <=3 entries; L23 sequences of 3 steps with batches of 1 and of 2 steps with batches <=2 '
             '(2 employees); L4 send_up batches <=4 (2 employees) / <=3 (3 employees)',
    'thorough': 'integers unbounded; <=3 employees; L1/L2 batches <=6 tasks with 1-2 employees, <=5 with 3 employees '
                '(L1: <=4); submit cache <=3 entries; L23 sequences of 3 steps with batches <=2, of 4 steps with batches '
                'of 1 (2 employees) and of 3 steps with 3 employees; L4 send_up batches <=6 (2 employees) / <=5 (3)',
}
OUTSIDE = 'more than 3 employees / 6 tasks per batch (5 with 3 employees) / 3 cache entries per employee; message interleavings between ' \
          'nodes (Part B); accuracy of the load estimate num_tasks (only its sign and exact per-call effect are checked)'
RULE = 'one case = one path of the symbolic execution tree of a lemma function (a distinct solver-feasible branch ' \
       'combination of the real scheduler code over unbounded integer counters); non-trivial = precondition ' \
       'satisfiable and the real function was executed and judged'

install_symbolic_list_repeat()

LOWER, STEP = 1000, 8     # id range of the node under test: employee k manages [LOWER+k*STEP, LOWER+(k+1)*STEP)


# ------------------------------------------------------------------------------------------------
# helpers
# ------------------------------------------------------------------------------------------------
def _pre_I(E: int, idle: list, total: list, ntasks: list) -> bool:
    for k in range(E):
        if not (0 <= idle[k] and idle[k] <= total[k] and ntasks[k] >= 0):
            return False
    return True


def _check_I(node: Any) -> 'str | None':
    s: Any = 0
    t: Any = 0
    for e in node.employees:
        if not (0 <= e.num_idle_workers and e.num_idle_workers <= e.total_workers):
            return 'I:employee-idle-out-of-range'
        if e.num_tasks < 0:
            return 'I:num_tasks-negative'
        s = s + e.num_idle_workers
        t = t + e.total_workers
    if node.num_idle_workers != s:
        return 'I:node-idle-sum'
    if node.total_workers != t:
        return 'I:node-total'
    return None


def _shard_pre(T: int, idle: list, r: list) -> bool:
    """Obligations of one shape partition the input space (parallelisation only): by the total number of idle
    workers (exactly v < T, or >= T) and by the order relation of the tie-break values."""
    sh = rt.SHARD
    if 'tot' in sh:
        tot: Any = 0
        for v in idle:
            tot = tot + v
        if sh['tot'] >= T:
            if tot < T:
                return False
        elif tot != sh['tot']:
            return False
    for key, a, b in (('r01', 0, 1), ('r12', 1, 2)):
        if key in sh:
            if sh[key] < 0:
                if not r[a] < r[b]:
                    return False
            elif sh[key] == 0:
                if r[a] != r[b]:
                    return False
            elif not r[a] > r[b]:
                return False
    return True


def _server(E: int, idle: list, total: list, ntasks: list, cls: Any = DetachedServer, managers: bool = False) -> Any:
    emps = [make_employee(k, total[k], idle[k], ntasks[k], managers) for k in range(E)]
    node = init_node(cls.__new__(cls), emps, LOWER, STEP)
    if cls is DetachedServer:
        node.clients = {}
        node.tasks = {}
        node.mailbox_to_task_dict = {}
        node.mailboxes = {}
        node.mailbox_counter = 0
    if cls is Manager:
        node.upstream = FakeConn('upstream', 1)
        node.last_num_idle_sent_up = node.total_workers
        node.most_recent_read_submit = None
    return node


def _batch(T: int, first_mailbox: int = 0, worker: int = LOWER) -> TaskSeq:
    return TaskSeq(make_task(worker, first_mailbox + j) for j in range(T))


def _ids(ts: Any) -> list:
    return [t.return_address.mailbox_index for t in ts]


def _judge_assignment(E: int, tasks: list, assign: list, idle: list, ntasks: list, tag: str) -> 'str | None':
    """Textbook statement of what assign_tasks documents, evaluated on its output only."""
    T = len(tasks)
    if len(assign) != E:
        return tag + ':shape'
    flat = sorted(m for a in assign for m in _ids(a))
    if flat != sorted(_ids(tasks)):
        return tag + ':not-a-partition'
    tot: Any = 0
    for k in range(E):
        tot = tot + idle[k]
    if T <= tot:
        # enough idle workers: nobody gets more tasks than it has idle workers
        for k in range(E):
            if len(assign[k]) > idle[k]:
                return tag + ':loaded-before-idle'
    else:
        # more tasks than idle workers: every idle worker is used, the overflow goes to the least loaded
        for k in range(E):
            if len(assign[k]) < idle[k]:
                return tag + ':idle-left-unused'
        for k in range(E):
            if len(assign[k]) > idle[k]:
                lk = ntasks[k] + len(assign[k])
                for j in range(E):
                    if lk - 1 > ntasks[j] + len(assign[j]):
                        return tag + ':overflow-not-least-loaded'
    return None


# ------------------------------------------------------------------------------------------------
# L1  assign_tasks
# ------------------------------------------------------------------------------------------------
def l1_assign(i0: int, i1: int, i2: int, n0: int, n1: int, n2: int, c0: int, c1: int, c2: int, c3: int, c4: int,
              c5: int, r0: int, r1: int, r2: int) -> bool:
    """
    post: _
    """
    rt.begin()
    reset_globals()
    E, T = rt.SHARD['E'], rt.SHARD['T']
    idle, ntasks = [i0, i1, i2][:E], [n0, n1, n2][:E]
    if not _pre_I(E, idle, idle, ntasks) or not _shard_pre(T, idle, [r0, r1, r2]):
        return True
    node = _server(E, idle, list(idle), ntasks)
    tasks = _batch(T)
    STUB.reset(T, [c0, c1, c2, c3, c4, c5], [r0, r1, r2], rt.SHARD.get('fix'))
    try:
        assign = node.assign_tasks(tasks)
    except SkipPath:
        return True
    except Exception as ex:
        return rt.fail('L1:exception:' + type(ex).__name__)
    rt.reach()
    if rt.CONCRETE:
        rt.log('idle', idle, 'num_tasks', ntasks, 'T', T, 'shuffle prefix', STUB.prefix, '->', [_ids(a) for a in assign])
    fp = _judge_assignment(E, tasks, assign, idle, ntasks, 'L1')
    if fp:
        return rt.fail(fp)
    # pure: no counter moved, nothing sent
    for k, e in enumerate(node.employees):
        if e.num_idle_workers != idle[k] or e.num_tasks != ntasks[k] or e.conn.sent or e.submit_cache:
            return rt.fail('L1:not-pure')
    if STUB.shuffles != 1:
        return rt.fail('L1:shuffle-count')
    return True


# ------------------------------------------------------------------------------------------------
# L2  schedule_tasks
# ------------------------------------------------------------------------------------------------
def _judge_schedule(node: Any, E: int, tasks: list, idle: list, ntasks: list, caches: list, sent_before: list,
                    tag: str) -> 'str | None':
    """Effect of one schedule_tasks call, read from the channels and the counters."""
    assign = []
    for k, e in enumerate(node.employees):
        new = e.conn.sent[sent_before[k]:]
        if len(new) > 1:
            return tag + ':more-than-one-message-to-an-employee'
        if new:
            msg, payload = new[0]
            if msg != RuntimeMessage.SUBMIT_BATCH or len(payload) == 0:
                return tag + ':bad-message'
            assign.append(list(payload))
        else:
            assign.append([])
    fp = _judge_assignment(E, tasks, assign, idle, ntasks, tag)
    if fp:
        return fp
    for k, e in enumerate(node.employees):
        a = len(assign[k])
        if e.num_tasks != ntasks[k] + a:
            return tag + ':num_tasks-effect'
        want_idle = idle[k] - a if a <= idle[k] else 0
        if e.num_idle_workers != want_idle:
            return tag + ':idle-effect'
        want_cache = list(caches[k]) + ([(assign[k][0].unique_id, a)] if a else [])
        if len(e.submit_cache) != len(want_cache):
            return tag + ':cache-length'
        for x, y in zip(e.submit_cache, want_cache):
            if x[0] != y[0] or x[1] != y[1]:
                return tag + ':cache-entry'
    return _check_I(node)


def l2_schedule(i0: int, i1: int, i2: int, w0: int, w1: int, w2: int, n0: int, n1: int, n2: int, c0: int, c1: int,
                c2: int, c3: int, c4: int, c5: int, r0: int, r1: int, r2: int) -> bool:
    """
    post: _
    """
    rt.begin()
    reset_globals()
    E, T = rt.SHARD['E'], rt.SHARD['T']
    idle, total, ntasks = [i0, i1, i2][:E], [w0, w1, w2][:E], [n0, n1, n2][:E]
    if not _pre_I(E, idle, total, ntasks) or not _shard_pre(T, idle, [r0, r1, r2]):
        return True
    node = _server(E, idle, total, ntasks)
    K = rt.SHARD.get('K', 0)
    caches = []
    for k, e in enumerate(node.employees):
        e.submit_cache = [(RuntimeAddress(-7, 10 * k + j, 0), 1 + j) for j in range(K)]
        caches.append(list(e.submit_cache))
    tasks = _batch(T)
    STUB.reset(T, [c0, c1, c2, c3, c4, c5], [r0, r1, r2], rt.SHARD.get('fix'))
    try:
        if rt.SHARD.get('via') == 'message':
            node.handle_message(RuntimeMessage.SUBMIT_BATCH, MessageDirection.BELOW, node.employees[0].conn, tasks)
        else:
            node.schedule_tasks(tasks)
    except SkipPath:
        return True
    except Exception as ex:
        return rt.fail('L2:exception:' + type(ex).__name__)
    rt.reach()
    if rt.CONCRETE:
        rt.log('idle', idle, 'total', total, 'num_tasks', ntasks, 'T', T, 'shuffle prefix', STUB.prefix)
        for e in node.employees:
            rt.log('  employee', e.id, 'sent', [(m.name, _ids(p)) for m, p in e.conn.sent], 'idle', e.num_idle_workers,
                   'num_tasks', e.num_tasks, 'cache', e.submit_cache)
        rt.log('  node.num_idle_workers', node.num_idle_workers)
    fp = _judge_schedule(node, E, tasks, idle, ntasks, caches, [0] * E, 'L2')
    if fp:
        return rt.fail(fp)
    return True


# ------------------------------------------------------------------------------------------------
# L3  handle_waiting + get_num_of_tasks_sent_since
# ------------------------------------------------------------------------------------------------
def l3_waiting(i0: int, i1: int, i2: int, w0: int, w1: int, w2: int, n0: int, n1: int, n2: int, k0: int, k1: int,
               k2: int, new_idle: int, rs: int) -> bool:
    """
    post: _
    """
    rt.begin()
    reset_globals()
    E, K, x = rt.SHARD['E'], rt.SHARD['K'], rt.SHARD['x']
    idle, total, ntasks = [i0, i1, i2][:E], [w0, w1, w2][:E], [n0, n1, n2][:E]
    counts = [k0, k1, k2][:K]
    if not _pre_I(E, idle, total, ntasks):
        return True
    for c in counts:
        if c < 0:
            return True
    if not (0 <= new_idle and new_idle <= total[x]):
        return True
    cls = Manager if rt.SHARD.get('node') == 'manager' else DetachedServer
    node = _server(E, idle, total, ntasks, cls)
    ex_ = node.employees[x]
    addrs = [RuntimeAddress(LOWER + 1, 40 + j, 0) for j in range(K)]
    ex_.submit_cache = [(addrs[j], counts[j]) for j in range(K)]
    sel = rt.P(rs, -1, K - 1)
    receipt = None if sel < 0 else addrs[sel]
    try:
        if rt.SHARD.get('via') == 'message':
            node.handle_message(RuntimeMessage.WAITING, MessageDirection.BELOW, ex_.conn, (new_idle, receipt))
        else:
            node.handle_waiting(ex_.conn, new_idle, receipt)
    except Exception as ex:
        if rt.CONCRETE:
            rt.log('idle', idle, 'total', total, 'cache counts', counts, 'new_idle', new_idle, 'receipt index', sel,
                   'raised', repr(ex))
        return rt.fail('L3:exception:' + type(ex).__name__)
    rt.reach()
    # oracle: tasks sent after the batch the employee acknowledged are not reflected in its idle count yet
    unacc: Any = 0
    for j in range(K):
        if j > sel:
            unacc = unacc + counts[j]
    want = new_idle - unacc
    if want < 0:
        want = 0
    if rt.CONCRETE:
        rt.log('idle', idle, 'total', total, 'cache counts', counts, 'new_idle', new_idle, 'receipt index', sel,
               '-> employee idle', ex_.num_idle_workers, 'expected', want, 'node idle', node.num_idle_workers)
    if ex_.num_idle_workers != want:
        return rt.fail('L3:idle-effect')
    keep = 0 if sel < 0 else sel
    if len(ex_.submit_cache) != K - keep:
        return rt.fail('L3:cache-trim')
    for j, ent in enumerate(ex_.submit_cache):
        if ent[0] != addrs[keep + j] or ent[1] != counts[keep + j]:
            return rt.fail('L3:cache-trim')
    for k, e in enumerate(node.employees):
        if e.num_tasks != ntasks[k]:
            return rt.fail('L3:num_tasks-touched')
        if k != x and e.num_idle_workers != idle[k]:
            return rt.fail('L3:other-employee-touched')
        if e.conn.sent:
            return rt.fail('L3:message-to-employee')
    fp = _check_I(node)
    if fp:
        return rt.fail('L3:' + fp)
    if cls is Manager:
        # Manager arm of WAITING also reports upstream (checked in detail by l4_update_upstream)
        up = node.upstream.sent
        if rt.SHARD.get('via') == 'message':
            if node.last_num_idle_sent_up != node.num_idle_workers:
                return rt.fail('L3:manager-upstream-stale')
            for msg, payload in up:
                if msg != RuntimeMessage.WAITING or payload[0] != node.num_idle_workers:
                    return rt.fail('L3:manager-upstream-payload')
        elif up:
            return rt.fail('L3:unexpected-upstream')
    return True


# ------------------------------------------------------------------------------------------------
# L23  sequences schedule / waiting with ghost receipts (FIFO monotonicity)
# ------------------------------------------------------------------------------------------------
def l23_seq(i0: int, i1: int, i2: int, w0: int, w1: int, w2: int, n0: int, n1: int, n2: int,
            a0: int, a1: int, a2: int, a3: int, a4: int, a5: int, a6: int, a7: int,
            b0: int, b1: int, b2: int, b3: int, b4: int, b5: int, b6: int, b7: int,
            d0: int, d1: int, d2: int, d3: int, d4: int, d5: int, d6: int, d7: int,
            g0: int, g1: int, g2: int, g3: int, g4: int, g5: int, g6: int, g7: int) -> bool:
    """
    post: _
    """
    rt.begin()
    reset_globals()
    E, N, TM = rt.SHARD['E'], rt.SHARD['N'], rt.SHARD['TM']
    idle, total, ntasks = [i0, i1, i2][:E], [w0, w1, w2][:E], [n0, n1, n2][:E]
    A = [[a0, a1, a2, a3, a4, a5, a6, a7], [b0, b1, b2, b3, b4, b5, b6, b7],
         [d0, d1, d2, d3, d4, d5, d6, d7], [g0, g1, g2, g3, g4, g5, g6, g7]]
    if not _pre_I(E, idle, total, ntasks):
        return True
    node = _server(E, idle, total, ntasks)
    sent: list = [[] for _ in range(E)]      # ghost: every batch put on the channel to employee k: (id, count)
    ghost = [-1] * E                          # ghost: position in sent[k] of the last receipt (-1 = none yet)
    next_box = 0
    for s in range(N):
        p = A[s]
        kind = rt.SHARD['kinds'][s] if 'kinds' in rt.SHARD else rt.P(p[0], 0, 1)
        cur_idle = [e.num_idle_workers for e in node.employees]
        cur_nt = [e.num_tasks for e in node.employees]
        caches = [list(e.submit_cache) for e in node.employees]
        if kind == 0:
            T = rt.SHARD['Ts'][s] if 'Ts' in rt.SHARD else rt.P(p[1], 1, TM)
            tasks = _batch(T, next_box)
            next_box += T
            # which worker gets a task is covered exhaustively by L1/L2; here the shuffle outcome is one of two
            # deterministic arrangements (solver-chosen) and tie-breaks are 0 - the subject is the receipt logic
            STUB.reset(T, [], [])
            STUB.pin = 'low' if rt.P(p[2], 0, 1) == 0 else 'high'
            before = [len(e.conn.sent) for e in node.employees]
            try:
                node.schedule_tasks(tasks)
            except Exception as ex:
                return rt.fail('L23:schedule:exception:' + type(ex).__name__)
            if rt.CONCRETE:
                rt.log('step', s, 'schedule', T, 'tasks; idle', cur_idle, '->', [e.num_idle_workers for e in node.employees])
            fp = _judge_schedule(node, E, tasks, cur_idle, cur_nt, caches, before, 'L23:schedule')
            if fp:
                return rt.fail(fp)
            for k, e in enumerate(node.employees):
                new = e.conn.sent[before[k]:]
                if new:
                    sent[k].append((new[0][1][0].unique_id, len(new[0][1])))
        else:
            x = rt.P(p[1], 0, E - 1)
            new_idle = p[2]
            if not (0 <= new_idle and new_idle <= total[x]):
                return True
            lo = ghost[x]
            pos = rt.P(p[3], lo, len(sent[x]) - 1)    # FIFO: a receipt never goes back; None only before the first
            receipt = None if pos < 0 else sent[x][pos][0]
            ex_ = node.employees[x]
            try:
                node.handle_waiting(ex_.conn, new_idle, receipt)
            except Exception as ex:
                if rt.CONCRETE:
                    rt.log('step', s, 'waiting from', x, 'receipt position', pos, 'cache', caches[x], 'raised', repr(ex))
                return rt.fail('L23:waiting:exception:' + type(ex).__name__)
            ghost[x] = pos
            unacc: Any = 0
            for j in range(len(sent[x])):
                if j > pos:
                    unacc = unacc + sent[x][j][1]
            want = new_idle - unacc
            if want < 0:
                want = 0
            if rt.CONCRETE:
                rt.log('step', s, 'waiting from', x, 'count', new_idle, 'receipt position', pos, 'of', len(sent[x]),
                       '-> idle', ex_.num_idle_workers, 'expected', want)
            if ex_.num_idle_workers != want:
                return rt.fail('L23:waiting:idle-effect')
            want_cache = sent[x][max(pos, 0):]
            if [c[0] for c in ex_.submit_cache] != [c[0] for c in want_cache]:
                return rt.fail('L23:waiting:cache')
            fp = _check_I(node)
            if fp:
                return rt.fail('L23:waiting:' + fp)
    rt.reach()
    return True


# ------------------------------------------------------------------------------------------------
# L4  Manager arms and DetachedServer UPDATE / RESULT arms
# ------------------------------------------------------------------------------------------------
def l4_send_up(i0: int, i1: int, i2: int, w0: int, w1: int, w2: int, n0: int, n1: int, n2: int, last: int, c0: int,
               c1: int, c2: int, c3: int, c4: int, c5: int, r0: int, r1: int, r2: int) -> bool:
    """
    post: _
    """
    rt.begin()
    reset_globals()
    E, T = rt.SHARD['E'], rt.SHARD['T']
    idle, total, ntasks = [i0, i1, i2][:E], [w0, w1, w2][:E], [n0, n1, n2][:E]
    if not _pre_I(E, idle, total, ntasks):
        return True
    node = _server(E, idle, total, ntasks, Manager)
    node.last_num_idle_sent_up = last
    receipt = RuntimeAddress(3, 3, 0) if rt.SHARD.get('receipt') else None
    node.most_recent_read_submit = receipt
    tasks = _batch(T)
    STUB.reset(T, [c0, c1, c2, c3, c4, c5], [r0, r1, r2], rt.SHARD.get('fix'))
    tot: Any = 0
    for v in idle:
        tot = tot + v
    try:
        if rt.SHARD.get('via') == 'message':
            node.handle_message(RuntimeMessage.SUBMIT_BATCH, MessageDirection.BELOW, node.employees[0].conn, tasks)
        else:
            node.send_up_or_schedule_tasks(tasks)
    except SkipPath:
        return True
    except Exception as ex:
        return rt.fail('L4:send_up:exception:' + type(ex).__name__)
    rt.reach()
    up = list(node.upstream.sent)
    if rt.CONCRETE:
        rt.log('idle', idle, 'total', total, 'num_tasks', ntasks, 'T', T, 'last_sent_up', last)
        rt.log('  upstream:', [(m.name, _ids(p) if m == RuntimeMessage.SUBMIT_BATCH else p) for m, p in up])
        for e in node.employees:
            rt.log('  employee', e.id, 'sent', [(m.name, _ids(p)) for m, p in e.conn.sent], 'idle', e.num_idle_workers,
                   'num_tasks', e.num_tasks)
    # split point: the first min(T, idle) tasks stay, the rest goes up - decided here by comparisons only
    keep = T
    for k in range(T):
        if tot <= k:
            keep = k
            break
    local, above = list(tasks)[:keep], list(tasks)[keep:]
    ups = [m for m in up if m[0] == RuntimeMessage.SUBMIT_BATCH]
    if above:
        if len(ups) != 1 or _ids(ups[0][1]) != _ids(above):
            return rt.fail('L4:send_up:tasks-sent-up')
    elif ups:
        return rt.fail('L4:send_up:tasks-sent-up')
    if local:
        fp = _judge_schedule(node, E, local, idle, ntasks, [[] for _ in range(E)], [0] * E, 'L4:send_up')
        if fp:
            return rt.fail(fp)
    else:
        for k, e in enumerate(node.employees):
            if e.conn.sent or e.num_tasks != ntasks[k] or e.num_idle_workers != idle[k]:
                return rt.fail('L4:send_up:touched-without-local-tasks')
        fp = _check_I(node)
        if fp:
            return rt.fail('L4:send_up:' + fp)
    # the boss must learn about at least as many new tasks as were kept (its num_tasks for me stays >= truth)
    upd = [m for m in up if m[0] == RuntimeMessage.UPDATE]
    told: Any = 0
    for m in upd:
        told = told + m[1]
    if told < len(local):
        return rt.fail('L4:send_up:update-undercount')
    for m in upd:
        if m[1] < 0:
            return rt.fail('L4:send_up:negative-update')
    # idle report upstream: whenever the count differs from the last one reported, with the current receipt
    waits = [m for m in up if m[0] == RuntimeMessage.WAITING]
    if node.last_num_idle_sent_up != node.num_idle_workers and tot != 0:
        return rt.fail('L4:send_up:idle-report-stale')
    for m in waits:
        if m[1][0] != node.num_idle_workers or m[1][1] != receipt:
            return rt.fail('L4:send_up:idle-report-payload')
    if len(waits) > 1:
        return rt.fail('L4:send_up:idle-report-twice')
    if len(up) != len(ups) + len(upd) + len(waits):
        return rt.fail('L4:send_up:unexpected-upstream-message')
    # order on the upstream channel: UPDATE(+n) before the tasks that overflow go up
    return True


def l4_update_upstream(i0: int, i1: int, w0: int, w1: int, last: int) -> bool:
    """
    post: _
    """
    rt.begin()
    reset_globals()
    idle, total = [i0, i1], [w0, w1]
    if not _pre_I(2, idle, total, [0, 0]):
        return True
    node = _server(2, idle, total, [0, 0], Manager)
    node.last_num_idle_sent_up = last
    receipt = RuntimeAddress(3, 3, 0) if rt.SHARD.get('receipt') else None
    node.most_recent_read_submit = receipt
    try:
        node.update_upstream_idle_workers()
    except Exception as ex:
        return rt.fail('L4:update_upstream:exception:' + type(ex).__name__)
    rt.reach()
    up = node.upstream.sent
    cur = idle[0] + idle[1]
    if cur != last:
        if len(up) != 1 or up[0][0] != RuntimeMessage.WAITING or up[0][1][0] != cur or up[0][1][1] != receipt:
            return rt.fail('L4:update_upstream:missing-or-wrong-report')
        # what the boss's handle_waiting (L3) requires of this count
        if not (0 <= up[0][1][0] and up[0][1][0] <= node.total_workers):
            return rt.fail('L4:update_upstream:count-out-of-range')
    elif up:
        return rt.fail('L4:update_upstream:redundant-report')
    if node.last_num_idle_sent_up != cur:
        return rt.fail('L4:update_upstream:last-sent-not-recorded')
    fp = _check_I(node)
    if fp:
        return rt.fail('L4:update_upstream:' + fp)
    return True


def l4_update(n0: int, n1: int, n2: int, g: int, diff: int, dg: int) -> bool:
    """
    post: _
    """
    rt.begin()
    reset_globals()
    E, x = 3, rt.SHARD['x']
    ntasks = [n0, n1, n2]
    # J: e.num_tasks >= g_e >= 0 (g = tasks really outstanding below employee x); sender contract on diff
    if not (n0 >= 0 and n1 >= 0 and n2 >= 0 and g >= 0 and ntasks[x] >= g):
        return True
    if diff < 0:
        if diff < -g:
            return True
        g2 = g + diff            # completions reported without a RESULT
    else:
        if not (0 <= dg and dg <= diff):
            return True
        g2 = g + dg              # new tasks kept below: at most diff of them
    cls = Manager if rt.SHARD['node'] == 'manager' else DetachedServer
    node = _server(E, [0, 0, 0], [1, 1, 1], ntasks, cls, managers=True)
    try:
        node.handle_message(RuntimeMessage.UPDATE, MessageDirection.BELOW, node.employees[x].conn, diff)
    except Exception as ex:
        return rt.fail('L4:update:exception:' + type(ex).__name__)
    rt.reach()
    for k, e in enumerate(node.employees):
        want = ntasks[k] + diff if k == x else ntasks[k]
        if e.num_tasks != want:
            return rt.fail('L4:update:num_tasks-effect')
        if e.conn.sent:
            return rt.fail('L4:update:message-to-employee')
    if node.employees[x].num_tasks < g2 or g2 < 0:
        return rt.fail('L4:update:num_tasks-below-truth')
    fp = _check_I(node)
    if fp:
        return rt.fail('L4:update:' + fp)
    if cls is Manager:
        up = node.upstream.sent
        if len(up) != 1 or up[0][0] != RuntimeMessage.UPDATE or up[0][1] != diff:
            return rt.fail('L4:update:not-forwarded')
    return True


def l4_result(n0: int, n1: int, n2: int, g: int, off: int, dest: int) -> bool:
    """
    post: _
    """
    rt.begin()
    reset_globals()
    E, x = 3, rt.SHARD['x']
    ntasks = [n0, n1, n2]
    # J and contract: the completed task was outstanding below employee x
    if not (n0 >= 0 and n1 >= 0 and n2 >= 0 and g >= 1 and ntasks[x] >= g):
        return True
    cls = Manager if rt.SHARD['node'] == 'manager' else DetachedServer
    node = _server(E, [0, 0, 0], [STEP, STEP, STEP], ntasks, cls, managers=True)
    o = rt.P(off, 0, STEP - 1)
    completed_by = LOWER + x * STEP + o
    where = rt.SHARD['dest']        # 'mine' | 'client' | 'outside'
    box = None
    if where == 'client':
        dest_w = -1
        if cls is DetachedServer:
            client = FakeConn('client', 7)
            node.clients[client] = {'T'}
            node.tasks['T'] = (5, client)
            node.mailbox_to_task_dict[5] = 'T'
            if rt.SHARD.get('box', True):
                box = ServerMailbox()
                box.client_waiting = bool(rt.SHARD.get('waiting'))
                node.mailboxes[5] = box
    elif where == 'mine':
        dest_w = dest
        if not (LOWER <= dest and dest < LOWER + STEP * E):
            return True
    else:
        dest_w = dest
        if (LOWER <= dest and dest < LOWER + STEP * E) or dest == -1:
            return True
    result = RuntimeResult(RuntimeAddress(dest_w, 5, 0), 'value', completed_by)
    try:
        node.handle_message(RuntimeMessage.RESULT, MessageDirection.BELOW, node.employees[x].conn, result)
    except Exception as ex:
        if rt.CONCRETE:
            rt.log('completed_by', completed_by, 'dest', dest_w, 'raised', repr(ex))
        return rt.fail('L4:result:exception:' + type(ex).__name__)
    rt.reach()
    for k, e in enumerate(node.employees):
        want = ntasks[k] - 1 if k == x else ntasks[k]
        if e.num_tasks != want:
            return rt.fail('L4:result:num_tasks-effect')
    if node.employees[x].num_tasks < g - 1:
        return rt.fail('L4:result:num_tasks-below-truth')
    fp = _check_I(node)
    if fp:
        return rt.fail('L4:result:' + fp)
    down = [(k, m) for k, e in enumerate(node.employees) for m in e.conn.sent]
    up = node.upstream.sent if cls is Manager else []
    if where == 'mine':
        # responsible employee by the definition of the id ranges (no floor division here)
        resp = -1
        for k in range(E):
            if LOWER + k * STEP <= dest_w and dest_w < LOWER + (k + 1) * STEP:
                resp = k
        if len(down) != 1 or down[0][0] != resp or down[0][1][0] != RuntimeMessage.RESULT or down[0][1][1] is not result:
            return rt.fail('L4:result:not-delivered-down')
        if cls is Manager:
            if len(up) != 1 or up[0][0] != RuntimeMessage.UPDATE or up[0][1] != -1:
                return rt.fail('L4:result:boss-not-updated')
    else:
        if down:
            return rt.fail('L4:result:sent-down-to-foreign-worker')
        if cls is Manager:
            if len(up) != 1 or up[0][0] != RuntimeMessage.RESULT or up[0][1] is not result:
                return rt.fail('L4:result:not-forwarded-up')
        else:
            got = client.sent
            if box is not None and box.client_waiting:
                if got != [(RuntimeMessage.RESULT, 'value')] or 5 in node.mailboxes:
                    return rt.fail('L4:result:waiting-client-not-served')
            else:
                if got:
                    return rt.fail('L4:result:unexpected-client-message')
                if box is not None and box.result != 'value':
                    return rt.fail('L4:result:not-stored')
    return True


def l4_submit_above(i0: int, i1: int, w0: int, w1: int, n0: int, n1: int, c0: int, c1: int, c2: int, c3: int,
                    r0: int, r1: int) -> bool:
    """
    post: _
    """
    rt.begin()
    reset_globals()
    E, T = 2, rt.SHARD['T']
    idle, total, ntasks = [i0, i1], [w0, w1], [n0, n1]
    if not _pre_I(E, idle, total, ntasks):
        return True
    node = _server(E, idle, total, ntasks, Manager)
    tasks = _batch(T, 0, 5)
    STUB.reset(T, [c0, c1, c2, c3], [r0, r1])
    try:
        if T == 1 and rt.SHARD.get('single'):
            node.handle_message(RuntimeMessage.SUBMIT, MessageDirection.ABOVE, node.upstream, tasks[0])
        else:
            node.handle_message(RuntimeMessage.SUBMIT_BATCH, MessageDirection.ABOVE, node.upstream, tasks)
    except Exception as ex:
        return rt.fail('L4:submit_above:exception:' + type(ex).__name__)
    rt.reach()
    # the receipt the manager will attach to its next WAITING is the id its boss cached for this batch
    if node.most_recent_read_submit != tasks[0].unique_id:
        return rt.fail('L4:submit_above:receipt')
    fp = _judge_schedule(node, E, list(tasks), idle, ntasks, [[], []], [0, 0], 'L4:submit_above')
    if fp:
        return rt.fail(fp)
    if node.upstream.sent:
        return rt.fail('L4:submit_above:unexpected-upstream')
    return True


# ------------------------------------------------------------------------------------------------
def part_a(tier: str) -> list[dict]:
    obs: list[dict] = []

    def ob(name: str, func: str, shard: dict, timeout: int) -> None:
        obs.append({'name': 'A/' + name, 'func': func, 'shard': shard, 'timeout': timeout})

    quick = tier == 'quick'
    to = 400 if quick else 2400

    def split(E: int, T: int, depth: int) -> list:
        """Shards of one shape by its first `depth` shuffle choices."""
        out = []

        def rec(pre: list) -> None:
            if len(pre) >= min(depth, T):
                out.append((E, T, {'fix': list(pre)}))
                return
            for a in range(E):
                rec(pre + [a])
        rec([])
        return out

    def split_tot(E: int, T: int, depth: int) -> list:
        """Shards by total idle count: >= T (no overflow; further by the first shuffle choices) or exactly
        v < T (T - v tasks overflow to the least loaded; further by the order of the tie-break values)."""
        out = [(E, T, dict(x[2], tot=T)) for x in split(E, T, depth)]
        for v in range(T):
            if E == 3:
                out += [(E, T, {'tot': v, 'r01': a, 'r12': b}) for a in (-1, 0, 1) for b in (-1, 0, 1)]
            else:
                out.append((E, T, {'tot': v}))
        return out

    def shapes_for(lemma: str) -> list:
        """(E, T, extra shard keys). L2 judges the assignment too, so the largest shapes run as L2 only."""
        out: list = [(1, t, {}) for t in (1, 3, 6)] + [(2, t, {}) for t in (1, 2, 3, 4, 5)]
        out += split_tot(2, 6, 1)
        out += [(3, 1, {}), (3, 2, {})]
        if lemma == 'L2' or not quick:
            out += split_tot(3, 3, 1)
        if not quick:
            out += split_tot(3, 4, 2)
            if lemma == 'L2':
                out += split_tot(3, 5, 3)
        return out

    def suffix(extra: dict) -> str:
        t = ''
        if 'tot' in extra:
            t += '/idle=%d' % extra['tot']
        if 'fix' in extra:
            t += '/first=' + ''.join(map(str, extra['fix']))
        if 'r01' in extra:
            t += '/r=' + '<=>'[extra['r01'] + 1] + '<=>'[extra['r12'] + 1]
        return t

    for lemma, func in (('L1', 'l1_assign'), ('L2', 'l2_schedule')):
        for E, T, extra in shapes_for(lemma):
            sh: dict = dict(extra, E=E, T=T)
            if lemma == 'L2':
                sh['K'] = (E + T) % 3
            ob('%s/%s/E%d/T%d%s' % (lemma, func[3:], E, T, suffix(extra)), func, sh, to)
    ob('L2/schedule/E2/T0', 'l2_schedule', {'E': 2, 'T': 0, 'K': 1}, to)
    ob('L2/schedule-via-message/E2/T3', 'l2_schedule', {'E': 2, 'T': 3, 'K': 0, 'via': 'message'}, to)
    for E in (1, 2, 3):
        for K in (0, 1, 2, 3):
            for x in range(E):
                ob('L3/waiting/E%d/K%d/x%d' % (E, K, x), 'l3_waiting', {'E': E, 'K': K, 'x': x}, to)
    ob('L3/waiting-via-message/server', 'l3_waiting', {'E': 2, 'K': 3, 'x': 1, 'via': 'message'}, to)
    ob('L3/waiting-via-message/manager', 'l3_waiting', {'E': 2, 'K': 3, 'x': 0, 'via': 'message', 'node': 'manager'}, to)
    ob('L3/waiting/manager', 'l3_waiting', {'E': 2, 'K': 2, 'x': 1, 'node': 'manager'}, to)
    S, W = 0, 1

    def seq(E: int, TM: int, kinds: list, by_size: bool = False) -> None:
        """by_size: one obligation per combination of batch sizes of the schedule steps (parallelisation only)."""
        combos: list = [None]
        if by_size:
            combos = [[]]
            for k in kinds:
                combos = [c + [t] for c in combos for t in (range(1, TM + 1) if k == S else [0])]
        for Ts in combos:
            sh = {'E': E, 'N': len(kinds), 'TM': TM, 'kinds': kinds}
            name = 'L23/seq/E%d/TM%d/%s' % (E, TM, ''.join('SW'[k] for k in kinds))
            if Ts is not None:
                sh['Ts'] = Ts
                name += '/sizes=' + ''.join(str(t) if t else '-' for t in Ts)
            ob(name, 'l23_seq', sh, to)

    if quick:
        for kinds in [[S, W, W], [S, S, W], [W, S, W], [S, W, S]]:
            seq(2, 1, kinds)
        for kinds in [[S, W], [W, S], [W, W]]:
            seq(2, 2, kinds)
    else:
        for kinds in [[a, b, c] for a in (S, W) for b in (S, W) for c in (S, W)]:
            seq(2, 2, kinds, by_size=True)
        for kinds in [[a, b, c, d] for a in (S, W) for b in (S, W) for c in (S, W) for d in (S, W)]:
            seq(2, 1, kinds)
        for kinds in [[S, W, W], [S, S, W], [S, W, S]]:
            seq(3, 1, kinds)
    sends: list = [(1, 2, {}), (2, 1, {}), (2, 2, {}), (2, 3, {}), (2, 4, {}), (3, 2, {}), (3, 3, {})]
    if not quick:
        sends += [(2, 6, {})] + split(3, 4, 1) + split(3, 5, 2)
    for E, T, extra in sends:
        ob('L4/send_up/E%d/T%d%s' % (E, T, suffix(extra)), 'l4_send_up', dict(extra, E=E, T=T, receipt=(E + T) % 2), to)
    ob('L4/send_up-via-message/E2/T2', 'l4_send_up', {'E': 2, 'T': 2, 'receipt': 1, 'via': 'message'}, to)
    for r in (0, 1):
        ob('L4/update_upstream/receipt%d' % r, 'l4_update_upstream', {'receipt': r}, to)
    for node in ('manager', 'server'):
        for x in (0, 2):
            ob('L4/update/%s/x%d' % (node, x), 'l4_update', {'node': node, 'x': x}, to)
        for x in (0, 1, 2):
            ob('L4/result/%s/mine/x%d' % (node, x), 'l4_result', {'node': node, 'x': x, 'dest': 'mine'}, to)
        ob('L4/result/%s/client' % node, 'l4_result', {'node': node, 'x': 1, 'dest': 'client'}, to)
    ob('L4/result/manager/outside', 'l4_result', {'node': 'manager', 'x': 0, 'dest': 'outside'}, to)
    ob('L4/result/server/client-waiting', 'l4_result', {'node': 'server', 'x': 2, 'dest': 'client', 'waiting': 1}, to)
    ob('L4/result/server/client-cancelled', 'l4_result', {'node': 'server', 'x': 0, 'dest': 'client', 'box': 0}, to)
    for T in (1, 2, 3):
        ob('L4/submit_above/T%d' % T, 'l4_submit_above', {'T': T}, to)
    ob('L4/submit_above/single', 'l4_submit_above', {'T': 1, 'single': 1}, to)
    return obs


def part_b(tier: str) -> list[dict]:
    """Whole-protocol simulation (E3, vf/rtsim.py): WAITING crossing SUBMIT_BATCH is produced by the scheduler's
    delays; the runtime's own assertion never fires (a dying node loop is a violation), counters stay in bounds
    on every node, and at quiescence a flat server believes every worker idle with zero outstanding tasks; every
    created task was forwarded to exactly one worker (channel log)."""
    from harness.rt_entry import ob
    obs = []
    if tier == 'quick':
        for topo, shapes in (('flat2', ('map3', 'nested', 'next3')), ('flat1', ('map3',)), ('mgr2x1', ('map2',))):
            for sh in shapes:
                obs.append(ob('B/msg/%s/%s/K1' % (topo, sh), topo, [sh], 'counters', 1, 200))
        obs.append(ob('B/msg/flat2/cancel_map/K1', 'flat2', ['cancel_map'], 'counters', 1, 200))
        # line level: the read-receipt update must be atomic with the enqueue on the worker
        for sh in ('submit', 'two_seq'):
            obs.append(ob('B/line/flat1/%s/K1' % sh, 'flat1', [sh], 'counters', 1, 300, line=True, maxrank=1))
    else:
        for topo in ('flat1', 'flat2', 'flat3'):
            for sh in ('map2', 'map3', 'next3', 'nested', 'nested_map', 'two_rev', 'cancel_map', 'cancel_after_next',
                       'cancel_nested'):
                obs.append(ob('B/msg/%s/%s/K2' % (topo, sh), topo, [sh], 'counters', 2, 600, maxrank=3))
        for topo in ('mgr2x1', 'mgr1x2', 'mgr2x2'):
            for sh in ('map2', 'map3', 'nested'):
                obs.append(ob('B/msg/%s/%s/K2' % (topo, sh), topo, [sh], 'counters', 2, 600))
        obs.append(ob('B/msg/flat2/two-clients/K2', 'flat2', ['map3', 'map2'], 'counters', 2, 600))
    return obs


from harness.rt_entry import sim  # noqa: E402,F401  (entry function of the part B obligations)


def obligations(tier: str) -> list[dict]:
    return part_a(tier) + part_b(tier)
