"""C17 helpers, families (X) and (P): symbolic leaves through the REAL expression evaluator.

Route (harness side, nothing under /repo is edited):
  * `visitor.eval_locals` gets extra entries (x0.., m0..) whose values are `Sym` objects that
    record the arithmetic Python's `eval` performs on them (the real `eval_exp_recurse` text
    is what gets evaluated);
  * the name `float` is shadowed in the visitor module's globals by `_keep_sym`, which is the
    builtin for numbers and turns a `Sym` into a `_Tag` (a genuine float whose numeric value
    is a unique tag, whose `.sym` is the symbolic value and whose text - used when the real
    `CustomGateDef.replace_param_indices` substitutes a bound parameter AS TEXT - is the
    spelling of a real number: `m` or `-m` for a fresh non-negative symbol m; the sign is a
    case split driven by `Decisions` and recorded as a constraint).
The decoded circuit then carries the tags as ordinary parameters; `value_of` maps them back.

The oracle is independent: a Pratt parser over the token list with the OpenQASM 2 / Qiskit
binding powers, value substitution for gate parameters, z3 for equality over all reals.
"""
from __future__ import annotations

import math
from fractions import Fraction
from functools import lru_cache
from typing import Any

FUNCS = ['sin', 'cos', 'tan', 'exp', 'ln', 'sqrt']
_NP_METHOD = {'sin': 'sin', 'cos': 'cos', 'tan': 'tan', 'log': 'ln', 'exp': 'exp', 'sqrt': 'sqrt'}


# ----------------------------------------------------------------------------- symbolic reals
class Sym:
    """A real number known only symbolically; records the operations applied to it.
    ast: ('var', name) | ('num', v) | ('neg', a) | ('add'|'sub'|'mul'|'div'|'pow', a, b) |
         ('fn', name, a)"""
    __slots__ = ('ast',)
    __array_priority__ = 1000

    def __init__(self, ast: tuple) -> None:
        self.ast = ast

    @staticmethod
    def lift(x: Any) -> tuple:
        if isinstance(x, Sym):
            return x.ast
        if isinstance(x, _Tag):
            return x.sym.ast
        if isinstance(x, bool) or not isinstance(x, (int, float)):
            try:
                x = float(x)
            except Exception:
                raise TypeError('Sym arithmetic with %r' % (type(x),))
        return ('num', x)

    def _bin(self, op: str, other: Any, swap: bool = False) -> 'Sym':
        a, b = self.ast, Sym.lift(other)
        if swap:
            a, b = b, a
        return Sym((op, a, b))

    def __add__(self, o: Any) -> 'Sym': return self._bin('add', o)
    def __radd__(self, o: Any) -> 'Sym': return self._bin('add', o, True)
    def __sub__(self, o: Any) -> 'Sym': return self._bin('sub', o)
    def __rsub__(self, o: Any) -> 'Sym': return self._bin('sub', o, True)
    def __mul__(self, o: Any) -> 'Sym': return self._bin('mul', o)
    def __rmul__(self, o: Any) -> 'Sym': return self._bin('mul', o, True)
    def __truediv__(self, o: Any) -> 'Sym': return self._bin('div', o)
    def __rtruediv__(self, o: Any) -> 'Sym': return self._bin('div', o, True)
    def __pow__(self, o: Any) -> 'Sym': return self._bin('pow', o)
    def __rpow__(self, o: Any) -> 'Sym': return self._bin('pow', o, True)
    def __neg__(self) -> 'Sym': return Sym(('neg', self.ast))
    def __pos__(self) -> 'Sym': return self

    # numpy ufuncs applied to an object call the method of the same name (np.sin(obj) ->
    # obj.sin()): this is how the entries of the real eval_locals tolerate a Sym.
    def sin(self) -> 'Sym': return Sym(('fn', 'sin', self.ast))
    def cos(self) -> 'Sym': return Sym(('fn', 'cos', self.ast))
    def tan(self) -> 'Sym': return Sym(('fn', 'tan', self.ast))
    def log(self) -> 'Sym': return Sym(('fn', 'ln', self.ast))
    def exp(self) -> 'Sym': return Sym(('fn', 'exp', self.ast))
    def sqrt(self) -> 'Sym': return Sym(('fn', 'sqrt', self.ast))

    def __repr__(self) -> str:
        return 'Sym(%s)' % show(self.ast)


def show(a: tuple) -> str:
    k = a[0]
    if k == 'var':
        return a[1]
    if k == 'num':
        return repr(a[1])
    if k == 'neg':
        return '(-%s)' % show(a[1])
    if k == 'fn':
        return '%s(%s)' % (a[1], show(a[2]))
    return '(%s %s %s)' % (show(a[1]), {'add': '+', 'sub': '-', 'mul': '*', 'div': '/', 'pow': '^'}[k], show(a[2]))


class Decisions:
    """Sign decisions taken by `_Tag.__str__` (depth-first enumeration by the caller)."""

    def __init__(self, prefix: list[int]) -> None:
        self.prefix = list(prefix)
        self.taken: list[int] = []
        self.constraints: list[tuple] = []   # ('eq', ast, sign, mname)
        self.nsym = 0

    def next(self) -> int:
        i = len(self.taken)
        d = self.prefix[i] if i < len(self.prefix) else 0
        self.taken.append(d)
        return d


class Ctx:
    decisions: Decisions | None = None
    tags: dict[float, '_Tag'] = {}
    extra_locals: dict[str, Any] = {}


class _Tag(float):
    """float carrying a symbolic value. Its text is the text of a real number: `m` / `-m`."""

    def __new__(cls, sym: Sym) -> '_Tag':
        v = 7.0e6 + len(Ctx.tags)
        o = float.__new__(cls, v)
        o.sym = sym          # type: ignore
        o.text = None        # type: ignore
        Ctx.tags[v] = o
        return o

    def __str__(self) -> str:
        if self.text is None:      # type: ignore
            D = Ctx.decisions
            assert D is not None
            neg = D.next()
            name = 'm%d' % D.nsym
            D.nsym += 1
            D.constraints.append((self.sym.ast, neg, name))   # type: ignore
            import bqskit.ir.lang.qasm2.visitor as V
            V.eval_locals[name] = Sym(('var', name))
            Ctx.extra_locals[name] = None
            self.text = ('-' if neg else '') + name           # type: ignore
        return self.text                                        # type: ignore

    __repr__ = __str__

    def __format__(self, spec: str) -> str:
        if spec == '':
            return self.__str__()
        raise TypeError('formatting a symbolic parameter with %r' % spec)


class _FloatMeta(type):
    def __instancecheck__(cls, obj: Any) -> bool:      # isinstance(v, float) in the visitor
        return isinstance(obj, float)


class _keep_sym(metaclass=_FloatMeta):
    """Stands in for the builtin `float` inside the visitor module: identical for numbers,
    keeps a symbolic value symbolic (as a tagged float)."""

    def __new__(cls, x: Any = 0.0) -> Any:
        if isinstance(x, Sym):
            return _Tag(x)
        if isinstance(x, _Tag):
            return x
        return float(x)


class Injection:
    """with Injection(['x0','x1'], prefix): ... - the harness-side hooks described above."""

    def __init__(self, names: list[str], prefix: list[int] | None = None, values: dict | None = None) -> None:
        self.names = names
        self.prefix = prefix or []
        self.values = values

    def __enter__(self) -> Decisions:
        import bqskit.ir.lang.qasm2.visitor as V
        self.V = V
        self.saved = dict(V.eval_locals)
        Ctx.tags = {}
        Ctx.extra_locals = {}
        Ctx.decisions = Decisions(self.prefix)
        for n in self.names:
            assert n not in V.eval_locals
            V.eval_locals[n] = Sym(('var', n)) if self.values is None else self.values[n]
        if self.values is None:
            V.float = _keep_sym     # type: ignore  (module-global shadow of the builtin)
        return Ctx.decisions

    def __exit__(self, *a: Any) -> None:
        V = self.V
        V.eval_locals.clear()
        V.eval_locals.update(self.saved)
        if 'float' in V.__dict__:
            del V.__dict__['float']
        Ctx.decisions = None


def value_of(p: Any) -> tuple:
    """Parameter of a decoded operation -> ast (tag -> its symbolic value, else number)."""
    t = Ctx.tags.get(float(p))
    if t is not None:
        return t.sym.ast       # type: ignore
    return ('num', float(p))


# ----------------------------------------------------------------------------- shapes
@lru_cache(None)
def shapes(n: int) -> tuple:
    """Every token string with exactly n tokens generated by the OpenQASM 2 expression grammar
    exp := L | -exp | (exp) | F(exp) | exp (+|-|*|/) exp | exp ^ K
    (L = leaf, F = unary function, K = literal exponent)."""
    out = set()
    if n == 1:
        out.add(('L',))
    if n >= 2:
        for e in shapes(n - 1):
            out.add(('-',) + e)
    if n >= 3:
        for e in shapes(n - 2):
            out.add(('(',) + e + (')',))
            out.add(e + ('^', 'K'))
        for i in range(1, n - 1):
            for a in shapes(i):
                for b in shapes(n - 1 - i):
                    for op in '+-*/':
                        out.add(a + (op,) + b)
    if n >= 4:
        for e in shapes(n - 3):
            out.add(('F', '(') + e + (')',))
    return tuple(sorted(out))


def features(shape: tuple) -> str:
    f = []
    if 'F' in shape:
        f.append('fn')
    if any(t == '(' and (i == 0 or shape[i - 1] != 'F') for i, t in enumerate(shape)):
        f.append('paren')
    if '^' in shape:
        f.append('pow')
    if any(t == '-' and (i == 0 or shape[i - 1] in ('(', '+', '-', '*', '/', '^')) for i, t in enumerate(shape)):
        f.append('usub')
    return '+'.join(f) or 'plain'


def instantiate(shape: tuple, leaves: list[str], fn: list[str], ks: list[str]) -> list[str]:
    """Leaf / function / exponent placeholders replaced cyclically."""
    out, il, ifn, ik = [], 0, 0, 0
    for t in shape:
        if t == 'L':
            out.append(leaves[il % len(leaves)])
            il += 1
        elif t == 'F':
            out.append(fn[ifn % len(fn)])
            ifn += 1
        elif t == 'K':
            out.append(ks[ik % len(ks)])
            ik += 1
        else:
            out.append(t)
    return out


# ----------------------------------------------------------------------------- oracle
# Binding powers of the OpenQASM 2 expression language as implemented by the reference
# loader (Qiskit qasm2): + - (1,2) left; * / (3,4) left; prefix - 5; ^ (8,7) right.
_BIN = {'+': (1, 2, 'add'), '-': (1, 2, 'sub'), '*': (3, 4, 'mul'), '/': (3, 4, 'div'), '^': (8, 7, 'pow')}
_PREFIX = 5


class OracleSyntaxError(Exception):
    pass


def pratt(tokens: list[str]) -> tuple:
    pos = [0]

    def peek() -> str | None:
        return tokens[pos[0]] if pos[0] < len(tokens) else None

    def take() -> str:
        t = tokens[pos[0]]
        pos[0] += 1
        return t

    def expr(minbp: int) -> tuple:
        t = take()
        if t == '-':
            lhs: tuple = ('neg', expr(_PREFIX))
        elif t == '(':
            lhs = expr(0)
            if take() != ')':
                raise OracleSyntaxError('expected )')
        elif t in FUNCS:
            if take() != '(':
                raise OracleSyntaxError('expected ( after function')
            lhs = ('fn', t, expr(0))
            if take() != ')':
                raise OracleSyntaxError('expected )')
        elif t == 'pi':
            lhs = ('num', math.pi)
        elif t[0].isdigit() or t[0] == '.':
            lhs = ('num', int(t) if t.isdigit() else float(t))
        elif t[0].isalpha():
            lhs = ('var', t)
        else:
            raise OracleSyntaxError('unexpected ' + t)
        while True:
            op = peek()
            if op is None or op not in _BIN:
                break
            lbp, rbp, name = _BIN[op]
            if lbp < minbp:
                break
            take()
            lhs = (name, lhs, expr(rbp))
        return lhs

    r = expr(0)
    if pos[0] != len(tokens):
        raise OracleSyntaxError('trailing tokens')
    return r


def subst(a: tuple, env: dict[str, tuple]) -> tuple:
    k = a[0]
    if k == 'var':
        return env.get(a[1], a)
    if k == 'num':
        return a
    if k == 'neg':
        return ('neg', subst(a[1], env))
    if k == 'fn':
        return ('fn', a[1], subst(a[2], env))
    return (k, subst(a[1], env), subst(a[2], env))


_MATH = {'sin': math.sin, 'cos': math.cos, 'tan': math.tan, 'exp': math.exp, 'ln': math.log, 'sqrt': math.sqrt}


def _apply(k: str, x: Any, y: Any = None) -> Any:
    if k == 'neg':
        return -x
    if k == 'add':
        return x + y
    if k == 'sub':
        return x - y
    if k == 'mul':
        return x * y
    if k == 'div':
        return x / y
    if k == 'pow':
        return x ** y
    raise AssertionError(k)


def fold(a: tuple) -> tuple:
    """Constant sub-terms evaluated numerically (what any evaluator does before a symbol is met)."""
    k = a[0]
    if k in ('var', 'num'):
        return a
    if k == 'neg':
        x = fold(a[1])
        return ('num', -x[1]) if x[0] == 'num' else ('neg', x)
    if k == 'fn':
        x = fold(a[2])
        if x[0] == 'num':
            try:
                return ('num', _MATH[a[1]](x[1]))
            except (ValueError, OverflowError):
                pass
        return ('fn', a[1], x)
    x, y = fold(a[1]), fold(a[2])
    if x[0] == 'num' and y[0] == 'num':
        try:
            v = _apply(k, x[1], y[1])
            if isinstance(v, (int, float)):
                return ('num', v)
        except (ZeroDivisionError, OverflowError, ValueError):
            pass
    return (k, x, y)


def evalf(a: tuple, env: dict[str, float]) -> float:
    k = a[0]
    if k == 'var':
        return env[a[1]]
    if k == 'num':
        return a[1]
    if k == 'neg':
        return -evalf(a[1], env)
    if k == 'fn':
        return _MATH[a[1]](evalf(a[2], env))
    return _apply(k, evalf(a[1], env), evalf(a[2], env))


# ----------------------------------------------------------------------------- z3
def nums_of(a: tuple, acc: list) -> None:
    if a[0] == 'num':
        try:
            acc.append(float(a[1]))
        except OverflowError:      # integer beyond the float range: kept exact
            pass
    elif a[0] != 'var':
        for c in a[1:]:
            if isinstance(c, tuple):
                nums_of(c, acc)


class Z3Ctx:
    """Translation of asts to z3 reals. Numeric constants that agree to 1e-9 (relative) are the
    same constant (constant sub-terms are folded in floating point on both sides).
    Transcendental functions and non-literal powers are uninterpreted."""

    def __init__(self, asts: list[tuple]) -> None:
        import z3
        self.z3 = z3
        vals: list[float] = []
        for a in asts:
            nums_of(a, vals)
        vals = sorted(set(vals))
        self.rep: dict[float, float] = {}
        cur: float | None = None
        for v in vals:
            if cur is None or abs(v - cur) > 1e-9 * (1 + abs(cur)):
                cur = v
            self.rep[v] = cur
        self.vars: dict[str, Any] = {}
        self.fn = {f: z3.Function(f, z3.RealSort(), z3.RealSort()) for f in FUNCS}
        self.pw = z3.Function('pw', z3.RealSort(), z3.RealSort(), z3.RealSort())
        self.denoms: list[Any] = []

    def var(self, n: str) -> Any:
        if n not in self.vars:
            self.vars[n] = self.z3.Real(n)
        return self.vars[n]

    def num(self, v: Any) -> Any:
        try:
            fv = float(v)
        except OverflowError:
            return self.z3.RealVal(int(v))
        if fv != fv or fv in (float('inf'), float('-inf')):
            return self.z3.Real('nonfinite_%d' % len(self.vars))     # never equal to anything else
        r = self.rep.get(fv, fv)
        f = Fraction(r)
        return self.z3.RealVal(f.numerator) / self.z3.RealVal(f.denominator) if f.denominator != 1 \
            else self.z3.RealVal(f.numerator)

    def tr(self, a: tuple) -> Any:
        k = a[0]
        if k == 'var':
            return self.var(a[1])
        if k == 'num':
            return self.num(a[1])
        if k == 'neg':
            return -self.tr(a[1])
        if k == 'fn':
            return self.fn[a[1]](self.tr(a[2]))
        x = self.tr(a[1])
        if k == 'pow':
            e = a[2]
            if e[0] == 'num' and abs(e[1]) <= 81 and e[1] == int(e[1]) and e[1] >= 0:
                r = self.z3.RealVal(1)
                for _ in range(int(e[1])):
                    r = r * x
                return r
            return self.pw(x, self.tr(e))
        y = self.tr(a[2])
        if k == 'add':
            return x + y
        if k == 'sub':
            return x - y
        if k == 'mul':
            return x * y
        if k == 'div':
            self.denoms.append(y)
            return x / y
        raise AssertionError(k)


def model_value(z3: Any, m: Any, v: Any) -> float:
    x = m.eval(v, model_completion=True)
    if z3.is_rational_value(x):
        return float(Fraction(x.numerator_as_long(), x.denominator_as_long()))
    if z3.is_algebraic_value(x):
        x = x.approx(30)
        return float(Fraction(x.numerator_as_long(), x.denominator_as_long()))
    return float(str(x).replace('?', ''))


def differ(pairs: list[tuple[tuple, tuple]], constraints: list[tuple], varnames: list[str],
           timeout_ms: int = 20000, positive_first: bool = True) -> tuple[str, dict | None]:
    """Is there an assignment of reals (satisfying the sign constraints, denominators non-zero)
    for which some pair (real, oracle) differs?  -> ('unsat', None) | ('sat', {var: float}) |
    ('unknown', None) | ('infeasible', None) when the constraints alone have no solution."""
    import z3
    allasts = [x for p in pairs for x in p] + [c[0] for c in constraints]
    Z = Z3Ctx(allasts)
    base = []
    for (ast, neg, name) in constraints:
        m = Z.var(name)
        if neg:
            base += [m > 0, Z.tr(ast) == -m]
        else:
            base += [m >= 0, Z.tr(ast) == m]
    diffs = [Z.tr(r) != Z.tr(o) for (r, o) in pairs]
    base += [d != 0 for d in Z.denoms]
    for n in varnames:
        Z.var(n)
    if constraints:
        s = z3.Solver()
        s.set('timeout', timeout_ms)
        s.add(*base)
        r = s.check()
        if r == z3.unsat:
            return 'infeasible', None
    def query(pos: bool) -> tuple[Any, Any]:
        s = z3.Solver()
        s.set('timeout', timeout_ms)
        s.add(*base)
        s.add(z3.Or(*diffs))
        if pos:
            # prefer a witness that can be written as plain literals (no sign in the text)
            s.add(*[Z.var(n) > 0 for n in varnames])
        r = s.check()
        return r, (s.model() if r == z3.sat else None)

    r, m = query(False)
    if r == z3.unsat:
        return 'unsat', None
    if r != z3.sat:
        return 'unknown', None
    if positive_first:
        r2, m2 = query(True)
        if r2 == z3.sat:
            m = m2
    return 'sat', {n: model_value(z3, m, Z.var(n)) for n in list(Z.vars)}
