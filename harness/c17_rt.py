"""C17 family (S): encode -> decode keeps the program.

Circuits of <=3 operations whose gate kinds range over EVERY class exported by
`bqskit.ir.gates` for which an instance with a QASM spelling can be built (catalogue below,
discovered from the package at run time; constructor arguments come from CTOR), with
solver-chosen kinds and locations (split at the boundary: everything past the choice runs the
real `Circuit.to('qasm')` / `OPENQASM2Language.decode` natively).

Oracle (property statement): same number of qubits; on every qubit the same sequence of
operations, where two operations agree when they act on the same location tuple and have the
same unitary at the given parameters (pseudo-operations: barrier = same location; measurement
= same qubit -> (classical register, bit); reset = reset).
"""
from __future__ import annotations

import inspect
import itertools
from typing import Any

from vf import rt

PVALS = [0.3141592653589793, -0.7853981633974483, 1.2345678e-05, 2.5, 1234567.125, -3.3333e-07, 0.1 + 0.2, 1e+22]

_CAT: dict[str, list] = {}


def _sub_circuits() -> list[Any]:
    from bqskit.ir.circuit import Circuit
    from bqskit.ir.gates import CNOTGate, CircuitGate, HGate, RZGate, U3Gate, RXXGate
    out = []
    c = Circuit(1)
    c.append_gate(RZGate(), [0], [0.4])
    c.append_gate(HGate(), [0])
    out.append(CircuitGate(c))
    c = Circuit(2)
    c.append_gate(CNOTGate(), [1, 0])
    c.append_gate(U3Gate(), [1], [0.1, 0.2, 0.3])
    c.append_gate(RXXGate(), [0, 1], [0.7])
    out.append(CircuitGate(c))
    inner = out[0]
    c = Circuit(2)
    c.append_gate(inner, [1], [0.9])
    c.append_gate(CNOTGate(), [0, 1])
    c.append_gate(inner, [0], [1.1])
    out.append(CircuitGate(c))
    c = Circuit(3)
    c.append_gate(out[1], [2, 0], [0.5, 0.6, 0.7, 0.8])
    c.append_gate(HGate(), [1])
    out.append(CircuitGate(c))
    c = Circuit(1)
    c.append_gate(HGate(), [0])
    out.append(CircuitGate(c))
    return out


def _instances(name: str, cls: Any) -> list[Any]:
    """Representative instances of one exported gate class ([] = cannot be a qubit gate)."""
    import numpy as np
    import bqskit.ir.gates as G
    if name == 'CircuitGate':
        return _sub_circuits()
    if name == 'ControlledGate':
        return [G.ControlledGate(G.U1Gate()), G.ControlledGate(G.U2Gate()), G.ControlledGate(G.U3Gate()),
                G.ControlledGate(G.SwapGate()), G.ControlledGate(G.XGate(), 3), G.ControlledGate(G.XGate(), 4),
                G.ControlledGate(G.SXGate(), 3), G.ControlledGate(G.XGate()), G.ControlledGate(G.HGate())]
    if name == 'FrozenParameterGate':
        return [G.FrozenParameterGate(G.U3Gate(), {1: 0.5}), G.FrozenParameterGate(G.RZGate(), {0: -0.25}),
                G.FrozenParameterGate(G.CUGate(), {0: 0.5, 3: 1.5})]
    if name == 'DaggerGate':
        return [G.DaggerGate(G.SXGate()), G.DaggerGate(G.TGate()), G.DaggerGate(G.RZGate())]
    if name == 'TaggedGate':
        return [G.TaggedGate(G.XGate(), 'tag')]
    if name == 'PowerGate':
        return [G.PowerGate(G.XGate(), 2)]
    if name in ('IdentityGate', 'BarrierPlaceholder', 'MPRYGate', 'MPRZGate', 'PauliGate', 'PauliZGate',
                'DiagonalGate', 'VariableUnitaryGate'):
        out = []
        for n in (1, 2, 3):
            try:
                out.append(cls(n))
            except Exception:
                pass
        if name in ('MPRYGate', 'MPRZGate'):
            try:
                out.append(cls(3, 0))
            except Exception:
                pass
        return out
    if name == 'ConstantUnitaryGate':
        return [cls(G.HGate().get_unitary())]
    if name == 'MeasurementPlaceholder':
        return ['measure']          # built per location
    if name in ('EmbeddedGate', 'VariableLocationGate', 'PermutationGate', 'SubSwapGate', 'PDGate', 'RSU3Gate'):
        return []                   # qudit-only / location-bound constructions: no QASM spelling
    try:
        return [cls()]
    except Exception:
        return []


def catalogue() -> list[tuple[str, Any]]:
    """[(label, gate)] for every exported gate class instance that has a QASM spelling."""
    if 'all' in _CAT:
        return _CAT['all']
    import bqskit.ir.gates as G
    from bqskit.ir.gate import Gate
    out = []
    skipped = []
    for name in sorted(dir(G)):
        cls = getattr(G, name)
        if not (inspect.isclass(cls) and issubclass(cls, Gate)) or inspect.isabstract(cls):
            continue
        try:
            insts = _instances(name, cls)
        except Exception as e:  # noqa
            skipped.append((name, 'ctor ' + type(e).__name__))
            continue
        for i, g in enumerate(insts):
            if g == 'measure':
                out.append((name, g))
                continue
            try:
                if not g.is_qubit_only():
                    continue
                make_op(g, tuple(range(g.num_qudits)), 0).get_qasm()
            except Exception as e:  # noqa  (no QASM spelling: outside the property)
                skipped.append((name, type(e).__name__))
                continue
            out.append(('%s#%d' % (name, i) if len(insts) > 1 else name, g))
    _CAT['all'] = out
    _CAT['skipped'] = skipped
    return out


def width_of(g: Any) -> int:
    return 1 if g == 'measure' else g.num_qudits


def select(cat: list, which: str, W: int) -> list[int]:
    """Indices into the catalogue."""
    idx = [i for i, (_, g) in enumerate(cat) if width_of(g) <= W]
    if which == 'all':
        return idx
    if which == 'wide':
        return [i for i in idx if width_of(cat[i][1]) >= 3]
    if which == 'context':
        want = ['CNOTGate', 'U3Gate', 'RZGate', 'CircuitGate#1', 'CircuitGate#0', 'BarrierPlaceholder#1',
                'MeasurementPlaceholder', 'Reset', 'IdentityGate#0', 'XXGate', 'ControlledGate#0', 'FrozenParameterGate#0']
        return [i for i in idx if cat[i][0] in want]
    raise AssertionError(which)


def make_op(g: Any, loc: tuple, pofs: int) -> Any:
    from bqskit.ir.gates import MeasurementPlaceholder
    from bqskit.ir.operation import Operation
    if g == 'measure':
        g = MeasurementPlaceholder([('c', 3)], {int(loc[0]): ('c', (int(loc[0]) + 1) % 3)})
    params = [PVALS[(pofs + i) % len(PVALS)] for i in range(g.num_params)]
    return Operation(g, loc, params)


def signature(op: Any, W: int) -> list[tuple[int, tuple]]:
    """[(qubit, entry)] contributions of one operation to the per-qubit timelines."""
    from bqskit.ir.gates import BarrierPlaceholder, MeasurementPlaceholder, Reset
    g = op.gate
    loc = tuple(int(q) for q in op.location)
    if isinstance(g, MeasurementPlaceholder):
        return [(q, ('measure', q) + tuple(g.measurements.get(q, ('?', -1)))) for q in loc]
    if isinstance(g, Reset):
        return [(loc[0], ('reset',))]
    if isinstance(g, BarrierPlaceholder):
        return [(q, ('barrier', loc)) for q in loc]
    u = op.get_unitary()
    return [(q, ('u', loc, u, type(g).__name__, tuple(float(p) for p in op.params))) for q in loc]


def same_entry(a: tuple, b: tuple) -> bool:
    import numpy as np
    if a[0] != b[0]:
        return False
    if a[0] != 'u':
        return a == b
    if not (a[1] == b[1] and a[2].shape == b[2].shape and bool(np.allclose(np.asarray(a[2]), np.asarray(b[2]), atol=1e-9))):
        return False
    if a[3] == b[3] and len(a[4]) == len(b[4]):      # same gate class: parameters to printing precision
        return all(abs(x - y) <= 1e-12 * (1 + abs(x)) for x, y in zip(a[4], b[4]))
    return True


def round_trip(W: int, ops: list[Any]) -> tuple[str, str]:
    """-> ('ok', '') | (fingerprint-kind, detail)"""
    import numpy as np
    from bqskit.ir.circuit import Circuit
    from bqskit.ir.lang.qasm2 import OPENQASM2Language
    circ = Circuit(W)
    for op in ops:
        circ.append(op)
    try:
        text = circ.to('qasm')
    except Exception as e:  # noqa
        return 'encode-raises:' + type(e).__name__, str(e)[:200]
    try:
        back = OPENQASM2Language().decode(text)
    except Exception as e:  # noqa
        return 'decode-raises:' + type(e).__name__, '%s | text: %r' % (str(e)[:160].replace('\n', ' '), text)
    if back.num_qudits != W:
        return 'num-qubits', 'decoded %d qubits | text: %r' % (back.num_qudits, text)
    tl_a: list[list[tuple]] = [[] for _ in range(W)]
    tl_b: list[list[tuple]] = [[] for _ in range(W)]
    try:
        for op in circ:
            for q, e in signature(op, W):
                tl_a[q].append(e)
        for op in back:
            for q, e in signature(op, W):
                tl_b[q].append(e)
    except Exception as e:  # noqa
        return 'unitary-raises:' + type(e).__name__, str(e)[:200]
    for q in range(W):
        if len(tl_a[q]) != len(tl_b[q]):
            return 'op-count', 'qubit %d: %d operations encoded, %d decoded | text: %r | decoded %r' % (
                q, len(tl_a[q]), len(tl_b[q]), text, back)
        for a, b in zip(tl_a[q], tl_b[q]):
            if not same_entry(a, b):
                if a[0] == b[0] and a[1] != b[1] and a[0] in ('u', 'barrier'):
                    kind = 'location'
                elif a[0] == b[0] == 'u':
                    same_u = a[2].shape == b[2].shape and bool(np.allclose(np.asarray(a[2]), np.asarray(b[2]), atol=1e-9))
                    kind = 'parameters' if same_u else 'unitary'
                else:
                    kind = 'kind'
                return kind, 'qubit %d: %r became %r | text: %r' % (
                    q, (a[0], a[1]) + tuple(a[3:]), (b[0], b[1]) + tuple(b[3:]), text)
    return 'ok', text


@rt.natively
def _s_entry_body(g0: int, g1: int, g2: int, l0: int, l1: int, l2: int) -> bool:
    rt.begin()
    S = rt.SHARD
    W, nops = S['W'], S['nops']
    cat = rt.nt(catalogue)
    ops = []
    labels = []
    for k, (gx, lx) in enumerate(zip([g0, g1, g2][:nops], [l0, l1, l2][:nops])):
        pool = rt.nt(select, cat, S['pools'][k], W)
        i, n = S.get('slice%d' % k, [0, 1])          # the i-th of n equal slices of the pool
        lo, hi = (len(pool) * i) // n, (len(pool) * (i + 1)) // n - 1
        if hi < lo:
            return True
        gi = rt.P(gx, lo, hi)
        label, g = cat[pool[gi]]
        n = rt.nt(width_of, g)
        locs = list(itertools.permutations(range(W), n))
        if len(locs) > S.get('maxloc', 24):
            locs = locs[:: max(1, len(locs) // S.get('maxloc', 24))]
        li = rt.P(lx, 0, len(locs) - 1)
        labels.append((label, locs[li]))
        ops.append(rt.nt(make_op, g, locs[li], 2 * k))
    res = rt.nt(round_trip, W, ops)
    rt.reach()
    if res[0] == 'ok':
        return True
    if rt.CONCRETE:
        rt.log('circuit on %d qubits:' % W, labels)
        rt.log(res[0], '-', res[1])
    # attribute to the smallest sub-sequence of the operations that already fails
    for size in range(1, nops):
        for sub in itertools.combinations(range(nops), size):
            r1 = rt.nt(round_trip, W, [ops[i] for i in sub])
            if r1[0] != 'ok':
                return rt.fail('S:%s:%s' % ('+'.join(sorted(labels[i][0].split('#')[0] for i in sub)), r1[0]))
    return rt.fail('S:%s:%s' % ('+'.join(sorted(l.split('#')[0] for l, _ in labels)), res[0]))


def s_entry(g0: int, g1: int, g2: int, l0: int, l1: int, l2: int) -> bool:
    """post: _"""
    return _s_entry_body(g0, g1, g2, l0, l1, l2)


