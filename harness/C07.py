"""C07 - every awaited runtime future resolves exactly once with its own result (bounded)."""
from __future__ import annotations

from typing import Any

from harness.rt_entry import ob, obs_sharded, sim  # noqa: F401
from vf import rt

PROPERTY = 'C07'
LEVEL = 'model_checking'
RULE = ('one case = one schedule (baseline + <=K deviations at solver-split positions) of one scenario '
        '(topology x task tree) executed on the real Worker/Server/Manager/Compiler objects; non-trivial = the '
        'run reached quiescence and the oracle was evaluated')
ENCODED = [
    'bqskit.runtime.worker:Worker._loop/_try_step_next_ready_task/_get_next_ready_task/_process_await/'
    '_get_desired_result/_process_task_completion/_handle_result/_add_task/recv_incoming/submit/map/next/cancel',
    'bqskit.runtime.worker:WorkerMailbox', 'bqskit.runtime.task:RuntimeTask', 'bqskit.runtime.future:RuntimeFuture',
    'bqskit.runtime.base:ServerBase.run/schedule_tasks/assign_tasks/send_result_down/is_my_worker/'
    'get_employee_responsible_for/handle_waiting/broadcast', 'bqskit.runtime.detached:DetachedServer.handle_message/'
    'handle_new_comp_task/handle_request/handle_result/handle_error', 'bqskit.runtime.manager:Manager.handle_message/'
    'send_up_or_schedule_tasks/handle_result_from_below/update_upstream_idle_workers/handle_update',
    'bqskit.compiler.compiler:Compiler.submit/result/_send/_send_recv/_recv_handle_log_error',
    'bqskit.compiler.task:CompilationTask.run', 'bqskit.compiler.workflow:Workflow.run',
    'bqskit.runtime.base:ServerBase.spawn_workers (over fake Process/Listener; symbolic id range and connection order)',
]
ASSUMPTIONS = [
    'nodes are built with __new__ (constructors open sockets / spawn processes); channels are in-memory FIFO pairs; '
    'selectors, Queue, Lock, os.kill, time.sleep are fakes that hand control to the scheduler (vf/rtsim.py)',
    'ServerBase.outgoing.put sends at once (the outgoing thread adds no reordering beyond per-connection FIFO)',
    'random.shuffle/random.random in assign_tasks run unstubbed with a fixed seed per run (seeded in run_scenario)',
    'message level: a thread runs until it blocks; line level: every source line of Worker._process_await, '
    '_handle_result, _get_desired_result, _process_task_completion, _handle_cancel, _get_next_ready_task, _add_task, '
    'cancel is a pre-emption point for the two threads of a worker',
]
BOUNDS = {
    'quick': 'topologies flat1, flat2 (server + 1-2 workers), mgr2x1; trees submit, map2, next3, nested, two_rev, next_mix; '
             'all schedules with <=2 deviations (rank<=2) from the baseline at message level (flat2 with next3/nested/'
             'two_rev and mgr2x1: <=1 deviation); line level: flat1, '
             'trees submit/map2 with <=1 deviation at every source line of the listed Worker methods',
    'thorough': 'adds flat3, mgr1x2, mgr2x2, trees map3/nested_map, <=3 deviations on the small scenarios, line level '
                'with <=2 deviations',
}
OUTSIDE = ('start-up wiring other than ServerBase.spawn_workers (connect_to_managers, the id ranges a detached server '
           'computes for its managers, process spawning and the Listener/Client hand-shake: the simulator wires those itself); '
           'more than 3 workers per node, depth > 2, pre-emption inside a bytecode, COMMUNICATE and LOG traffic, '
           'schedules further than K deviations from the baseline')


# ---- start-up wiring (E1): the real ServerBase.spawn_workers over fake Process / Listener / selector ----------------
# Result routing (get_employee_responsible_for / send_result_down) indexes `employees` by
# (worker_id - lower_id_bound) // step_size, so after spawn_workers employee i must be worker lower_id_bound + i whatever
# the node's id range and whatever order the workers connect in.
@rt.natively
def _startup_body(lo: int, k: int, nw: int, p0: int, p1: int, p2: int, p3: int) -> bool:
    import bqskit.runtime.base as B
    from bqskit.runtime.message import RuntimeMessage
    rt.begin()
    bases = [0, 2 ** 29, 357913941, 2 ** 30]          # id-range starts a detached server hands to 1-3 managers
    lower = bases[rt.P(lo, 0, len(bases) - 1)] + rt.P(k, 0, 4)
    n = rt.P(nw, 1, 4)
    rest = list(range(n))
    order = [rest.pop(rt.P(x, 0, len(rest) - 1)) for x in [p0, p1, p2, p3][:n]]     # connection order

    class FakeProc:
        def __init__(self, target: Any = None, args: tuple = (), kwargs: Any = None) -> None:
            self.args, self.daemon = args, False

        def start(self) -> None:
            pass

    class FakeConn:
        def __init__(self, wid: int) -> None:
            self.wid = wid

        def recv(self) -> Any:
            return (RuntimeMessage.STARTED, self.wid)

    class FakeListener:
        def __init__(self, *a: Any, **kw: Any) -> None:
            self.i = 0

        def accept(self) -> Any:
            self.i += 1
            return FakeConn(lower + order[self.i - 1])

        def close(self) -> None:
            pass

    class FakeSel:
        def register(self, *a: Any) -> None:
            pass

    def run() -> 'str | None':
        node = object.__new__(_Node)
        node.lower_id_bound, node.upper_id_bound = lower, lower + 2 ** 20
        node.employees, node.conn_to_employee_dict, node.sel = [], {}, FakeSel()
        saved = (B.Process, B.Listener)
        B.Process, B.Listener = FakeProc, FakeListener
        try:
            B.ServerBase.spawn_workers(node, n, 0)
        finally:
            B.Process, B.Listener = saved
        if len(node.employees) != n:
            return 'startup:employee-count'
        for i in range(n):
            wid = lower + i
            if node.employees[i].id != wid or node.employees[i].conn.wid != wid:
                rt.log('employees', [e.id for e in node.employees], 'lower bound', lower, 'connection order', order)
                return 'startup:employee-table-not-in-id-order'
            if not B.ServerBase.is_my_worker(node, wid) or B.ServerBase.get_employee_responsible_for(node, wid).conn.wid != wid:
                return 'startup:worker-id-routed-to-another-worker'
        return None
    fp = rt.nt(run)
    rt.reach()
    if rt.CONCRETE:
        rt.log('lower id bound', lower, 'workers', n, 'connection order', order)
    return True if fp is None else rt.fail(fp)


class _Node:
    """Bare attribute holder standing in for a ServerBase (its constructor opens sockets)."""
    step_size = 1


def startup(lo: int, k: int, nw: int, p0: int, p1: int, p2: int, p3: int) -> bool:
    """
    post: _
    """
    return _startup_body(lo, k, nw, p0, p1, p2, p3)


def obligations(tier: str) -> list[dict]:
    obs = [{'name': 'startup/spawn_workers/id-ranges-x-connection-orders', 'func': 'startup', 'shard': {}, 'timeout': 200}]
    if tier == 'quick':
        for sh in ('submit', 'map2', 'next3', 'nested', 'two_rev'):
            obs.append(ob('msg/flat1/%s/K2' % sh, 'flat1', [sh], 'tables', 2, 200))
        for sh in ('submit', 'map2'):
            obs.extend(obs_sharded(3, 'msg/flat2/%s/K2' % sh, 'flat2', [sh], 'tables', 2, 200))
        for sh in ('next3', 'nested', 'two_rev'):        # two deviations on these trees: thorough tier
            obs.append(ob('msg/flat2/%s/K1' % sh, 'flat2', [sh], 'tables', 1, 200))
        for sh in ('map2', 'nested'):
            obs.append(ob('msg/mgr2x1/%s/K1' % sh, 'mgr2x1', [sh], 'tables', 1, 200))
        obs.extend(obs_sharded(4, 'msg/flat2/next_mix/K2', 'flat2', ['next_mix'], 'tables', 2, 200))
        for sh in ('submit', 'map2', 'next3', 'nested'):
            obs.append(ob('line/flat1/%s/K1' % sh, 'flat1', [sh], 'tables', 1, 200, line=True, maxrank=1))
        for sh in ('two_seq', 'map2', 'next_mix', 'nested', 'two_rev'):
            obs.append(ob('line/flat2/%s/K1' % sh, 'flat2', [sh], 'tables', 1, 240, line=True, maxrank=1))
    else:
        for topo in ('flat1', 'flat2', 'flat3'):
            for sh in ('submit', 'map2', 'map3', 'next3', 'next_mix', 'nested', 'nested_map', 'two_rev', 'two_seq'):
                obs.append(ob('msg/%s/%s/K2' % (topo, sh), topo, [sh], 'tables', 2, 600, maxrank=3))
        for topo in ('mgr2x1', 'mgr1x2', 'mgr2x2'):
            for sh in ('submit', 'map2', 'next3', 'nested', 'two_rev'):
                obs.append(ob('msg/%s/%s/K2' % (topo, sh), topo, [sh], 'tables', 2, 600))
        for sh in ('submit', 'map2'):
            obs.append(ob('msg/flat2/%s/K3' % sh, 'flat2', [sh], 'tables', 2, 600, maxrank=3))
        for topo in ('flat1', 'flat2'):
            for sh in ('submit', 'map2', 'next3', 'two_rev', 'nested'):
                obs.append(ob('line/%s/%s/K2' % (topo, sh), topo, [sh], 'tables', 2 if topo == 'flat1' else 1, 600,
                              line=True, maxrank=1))
        obs.append(ob('msg/flat2/two-clients/K2', 'flat2', ['map2', 'submit'], 'tables', 2, 600))
    return obs
