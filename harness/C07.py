"""C07 - every awaited runtime future resolves exactly once with its own result (bounded)."""
from __future__ import annotations

from harness.rt_entry import ob, obs_sharded, sim  # noqa: F401

PROPERTY = 'C07'
LEVEL = 'model_checking'
RULE = ('one case = one schedule (baseline + <=K deviations at solver-split positions) of one scenario '
        '(topology x task tree) executed on the real Worker/Server/Manager/Compiler objects; non-trivial = the '
        'run reached quiescence and the oracle was evaluated')
ENCODED = [
    'bqskit.runtime.worker:Worker._loop/_try_step_next_ready_task/_get_next_ready_task/_process_await/'
    '_get_desired_result/_process_task_completion/_handle_result/_add_task/recv_incoming/submit/map/next/cancel',
    'bqskit.runtime.worker:WorkerMailbox', 'bqskit.runtime.task:RuntimeTask', 'bqskit.runtime.future:RuntimeFuture',
    'bqskit.runtime.base:ServerBase.run/schedule_tasks/assign_tasks/send_result_down/is_my_worker/'
    'get_employee_responsible_for/handle_waiting/broadcast', 'bqskit.runtime.detached:DetachedServer.handle_message/'
    'handle_new_comp_task/handle_request/handle_result/handle_error', 'bqskit.runtime.manager:Manager.handle_message/'
    'send_up_or_schedule_tasks/handle_result_from_below/update_upstream_idle_workers/handle_update',
    'bqskit.compiler.compiler:Compiler.submit/result/_send/_send_recv/_recv_handle_log_error',
    'bqskit.compiler.task:CompilationTask.run', 'bqskit.compiler.workflow:Workflow.run',
]
ASSUMPTIONS = [
    'nodes are built with __new__ (constructors open sockets / spawn processes); channels are in-memory FIFO pairs; '
    'selectors, Queue, Lock, os.kill, time.sleep are fakes that hand control to the scheduler (vf/rtsim.py)',
    'ServerBase.outgoing.put sends at once (the outgoing thread adds no reordering beyond per-connection FIFO)',
    'random.shuffle/random.random in assign_tasks run unstubbed with a fixed seed per run (seeded in run_scenario)',
    'message level: a thread runs until it blocks; line level: every source line of Worker._process_await, '
    '_handle_result, _get_desired_result, _process_task_completion, _handle_cancel, _get_next_ready_task, _add_task, '
    'cancel is a pre-emption point for the two threads of a worker',
]
BOUNDS = {
    'quick': 'topologies flat1, flat2 (server + 1-2 workers), mgr2x1; trees submit, map2, next3, nested, two_rev, next_mix; '
             'all schedules with <=2 deviations (rank<=2) from the baseline at message level (flat2 with next3/nested/'
             'two_rev and mgr2x1: <=1 deviation); line level: flat1, '
             'trees submit/map2 with <=1 deviation at every source line of the listed Worker methods',
    'thorough': 'adds flat3, mgr1x2, mgr2x2, trees map3/nested_map, <=3 deviations on the small scenarios, line level '
                'with <=2 deviations',
}
OUTSIDE = ('start-up and shut-down wiring (spawn_workers / connect_to_managers / the id ranges handed to managers: the '
           'simulator wires the employee tables itself - a seeded change there, C07b, is not caught); '
           'more than 3 workers per node, depth > 2, pre-emption inside a bytecode, COMMUNICATE and LOG traffic, '
           'schedules further than K deviations from the baseline')


def obligations(tier: str) -> list[dict]:
    obs = []
    if tier == 'quick':
        for sh in ('submit', 'map2', 'next3', 'nested', 'two_rev'):
            obs.append(ob('msg/flat1/%s/K2' % sh, 'flat1', [sh], 'tables', 2, 200))
        for sh in ('submit', 'map2'):
            obs.extend(obs_sharded(3, 'msg/flat2/%s/K2' % sh, 'flat2', [sh], 'tables', 2, 200))
        for sh in ('next3', 'nested', 'two_rev'):        # two deviations on these trees: thorough tier
            obs.append(ob('msg/flat2/%s/K1' % sh, 'flat2', [sh], 'tables', 1, 200))
        for sh in ('map2', 'nested'):
            obs.append(ob('msg/mgr2x1/%s/K1' % sh, 'mgr2x1', [sh], 'tables', 1, 200))
        obs.extend(obs_sharded(4, 'msg/flat2/next_mix/K2', 'flat2', ['next_mix'], 'tables', 2, 200))
        for sh in ('submit', 'map2', 'next3', 'nested'):
            obs.append(ob('line/flat1/%s/K1' % sh, 'flat1', [sh], 'tables', 1, 200, line=True, maxrank=1))
        for sh in ('two_seq', 'map2', 'next_mix', 'nested', 'two_rev'):
            obs.append(ob('line/flat2/%s/K1' % sh, 'flat2', [sh], 'tables', 1, 240, line=True, maxrank=1))
    else:
        for topo in ('flat1', 'flat2', 'flat3'):
            for sh in ('submit', 'map2', 'map3', 'next3', 'next_mix', 'nested', 'nested_map', 'two_rev', 'two_seq'):
                obs.append(ob('msg/%s/%s/K2' % (topo, sh), topo, [sh], 'tables', 2, 600, maxrank=3))
        for topo in ('mgr2x1', 'mgr1x2', 'mgr2x2'):
            for sh in ('submit', 'map2', 'next3', 'nested', 'two_rev'):
                obs.append(ob('msg/%s/%s/K2' % (topo, sh), topo, [sh], 'tables', 2, 600))
        for sh in ('submit', 'map2'):
            obs.append(ob('msg/flat2/%s/K3' % sh, 'flat2', [sh], 'tables', 2, 600, maxrank=3))
        for topo in ('flat1', 'flat2'):
            for sh in ('submit', 'map2', 'next3', 'two_rev', 'nested'):
                obs.append(ob('line/%s/%s/K2' % (topo, sh), topo, [sh], 'tables', 2 if topo == 'flat1' else 1, 600,
                              line=True, maxrank=1))
        obs.append(ob('msg/flat2/two-clients/K2', 'flat2', ['map2', 'submit'], 'tables', 2, 600))
    return obs
