"""C06 - circuit simulation equals the ordered product of its operations (E2 + E1).

Matrix part (kind 'direct'): every operation is a harness gate whose matrix entries are
distinct real ATOMS (parameterised gates: entries affine in their own parameters with atom
coefficients, so a wrong parameter slice or tensor leg gives a different polynomial). The
REAL Circuit.get_unitary / get_statevector / params plumbing / UnitaryBuilder run on these
object arrays; the oracle is the explicit Kronecker embedding (qudit 0 most significant)
multiplied in iteration order. Each entry difference is a polynomial in the atoms; z3 decides
"some entry differs" (unsat = identity for ALL matrix entries, parameter values and input
states). Gradients are checked on library gates with trigonometric entries (U3, RZZ, CRY,
CKM, ...) against the symbolic derivative of the oracle product, for all real parameters.

Index part (kind 'ch'): region/qudit restricted iteration and get_param_location with
symbolic bounds on pre-states built through the public API.
"""
from __future__ import annotations

import itertools
import time
from typing import Any

from vf import rt

PROPERTY = 'C06'
LEVEL = 'model_checking'
RULE = ('one case = one circuit shape (radixes, ordered locations, parameter counts, nesting) with ALL matrix entries, '
        'parameters and input amplitudes symbolic; non-trivial = at least one multi-qudit or permuted location')
ENCODED = [
    'bqskit.ir.circuit:Circuit.get_unitary/get_statevector/get_unitary_and_grad/get_grad/params/set_params/get_param/'
    'set_param/get_param_location/freeze_param/operations/operations_with_cycles',
    'bqskit.qis.unitary.unitarybuilder:UnitaryBuilder.apply_right/apply_left/eval_apply_right/eval_apply_left/'
    'get_unitary/calc_env_matrix', 'bqskit.qis.state.state:StateVector.apply', 'bqskit.ir.operation:Operation.get_unitary/'
    'get_unitary_and_grad', 'bqskit.ir.gates.circuitgate:CircuitGate.get_unitary/get_grad',
    'bqskit.ir.gates.composed.frozenparam:FrozenParameterGate', 'bqskit.ir.iterator:CircuitGridIterator',
]
ASSUMPTIONS = [
    'UnitaryMatrix.__init__/StateVector.__init__ stubbed to keep exact object arrays (no numeric unitarity/normalisation '
    'test); module-level np of unitarybuilder/state/circuit proxied so complex128 casts keep dtype=object',
    'generic (not necessarily unitary) atom matrices for get_unitary/get_statevector: a polynomial identity with integer '
    'coefficients that holds for all real matrices holds for all complex ones; gradient code uses U^dagger as inverse, so '
    'gradients are checked on genuinely unitary library gates with symbolic angles',
    'counterexamples are replayed with random Haar unitaries of the same shapes through the unmodified numeric code',
]
BOUNDS = {
    'quick': '<=2 operations on <=3 qudits, radix patterns (2,2), (2,3), (3,2), (2,2,2), (2,3,2): every ordered location of '
             'size 1-2 (and 3 on qubits); nested CircuitGate; gradients for 2-op circuits of U3/RZZ/CRY on 2-3 qubits',
    'thorough': '<=3 operations, adds radix (3,3), (2,2,3), (3,2,2), 4-qubit circuits with 2-3 ops, gradients for 3-op '
                'circuits incl. qutrit CKM and permuted two-qudit gates',
}
OUTSIDE = 'floating-point rounding; dimension > 27; native evaluation of library gates (C18); calc_env_matrix on mixed radix'


# ---------------------------------------------------------------------------------------------
# harness gates
# ---------------------------------------------------------------------------------------------

def _mk_gate_classes() -> Any:
    import numpy as np
    import sympy as sp
    from bqskit.ir.gate import Gate
    from bqskit.qis.unitary.unitarymatrix import UnitaryMatrix
    from vf.sym import Sym

    class AtomGate(Gate):
        """entries: a_{id,r,c} + sum_k theta_k * b_{id,r,c,k}  (real atoms)."""

        def __init__(self, gid: int, radixes: tuple, nparams: int) -> None:
            self.gid = gid
            self._radixes = tuple(radixes)
            self._num_qudits = len(radixes)
            self._num_params = nparams
            self._name = 'A%d' % gid
            self._dimv = int(np.prod(radixes))

        def matrix(self, params: list) -> Any:
            d = self._dimv
            M = sp.zeros(d, d)
            for r in range(d):
                for c in range(d):
                    e = sp.Symbol('a%d_%d_%d' % (self.gid, r, c), real=True)
                    for k in range(self._num_params):
                        e = e + Sym(params[k]).e * sp.Symbol('b%d_%d_%d_%d' % (self.gid, r, c, k), real=True)
                    M[r, c] = e
            return M

        def get_unitary(self, params: Any = []) -> Any:
            self.check_parameters(params)
            M = self.matrix(list(params))
            arr = np.empty((self._dimv, self._dimv), dtype=object)
            for r in range(self._dimv):
                for c in range(self._dimv):
                    arr[r, c] = Sym(M[r, c])
            return UnitaryMatrix(arr, self._radixes)

        def __eq__(self, o: object) -> bool:
            return isinstance(o, AtomGate) and o.gid == self.gid

        def __hash__(self) -> int:
            return hash(('AtomGate', self.gid))
    return AtomGate


def embed(M: Any, loc: list, radixes: list) -> Any:
    """Textbook embedding of operator M (acting on qudits `loc`, in that order) into the full
    space with qudit 0 as the most significant tensor factor."""
    import sympy as sp
    n = len(radixes)
    dim = 1
    for r in radixes:
        dim *= r
    out = sp.zeros(dim, dim)

    def digits(x: int) -> list:
        d = []
        for r in reversed(radixes):
            d.append(x % r)
            x //= r
        return list(reversed(d))

    def sub_index(d: list) -> int:
        i = 0
        for q in loc:
            i = i * radixes[q] + d[q]
        return i
    for row in range(dim):
        dr = digits(row)
        for col in range(dim):
            dc = digits(col)
            if all(dr[q] == dc[q] for q in range(n) if q not in loc):
                out[row, col] = M[sub_index(dr), sub_index(dc)]
    return out


def shapes(tier: str) -> list[dict]:
    pats = [(2, 2), (2, 3), (3, 2), (2, 2, 2), (2, 3, 2)]
    nops = 2
    if tier == 'thorough':
        pats += [(3, 3), (2, 2, 3), (3, 2, 2)]
        nops = 3
    out = []
    for rad in pats:
        n = len(rad)
        locs = [list(p) for k in (1, 2) for p in itertools.permutations(range(n), k)]
        if n == 3:
            locs += [[0, 1, 2], [2, 0, 1], [1, 2, 0]]
        for k in range(1, nops + 1):
            for combo in itertools.product(locs, repeat=k):
                if k >= 2 and all(len(c) == 1 for c in combo):
                    continue        # only single-qudit gates: covered by k=1 plus products
                if k == 3 and sum(len(c) for c in combo) > 6:
                    continue
                out.append({'rad': list(rad), 'ops': [list(c) for c in combo]})
    if tier == 'thorough':
        for combo in itertools.product([[0, 3], [3, 1], [2, 0], [1, 2, 3], [3, 0, 2]], repeat=2):
            out.append({'rad': [2, 2, 2, 2], 'ops': [list(c) for c in combo]})
    return out


def _circuit_modules() -> list:
    import bqskit.ir.circuit as a
    import bqskit.ir.gates.circuitgate as d
    import bqskit.ir.gates.composed.frozenparam as e
    import bqskit.qis.state.state as c
    import bqskit.qis.unitary.unitarybuilder as b
    import bqskit.qis.unitary.unitarymatrix as f
    return [a, b, c, d, e, f]


class state_mode:
    """StateVector.__init__ keeps object arrays (no normalisation test)."""

    def __enter__(self) -> 'state_mode':
        import numpy as np
        from bqskit.qis.state.state import StateVector
        from vf.sym import has_sym
        self.SV = StateVector
        self.orig = StateVector.__init__
        orig = self.orig

        def init(sv: Any, input: Any, radixes: Any = [], check_arguments: bool = True) -> None:
            if isinstance(input, StateVector):
                sv._vec = input._vec
                sv._dim = input._dim
                sv._radixes = input._radixes
                return
            if not has_sym(input) and not (isinstance(input, np.ndarray) and input.dtype == object):
                return orig(sv, input, radixes, check_arguments)
            sv._vec = np.array(input, dtype=object)
            sv._dim = len(sv._vec)
            sv._radixes = tuple(radixes)
        StateVector.__init__ = init    # type: ignore
        return self

    def __exit__(self, *a: Any) -> None:
        self.SV.__init__ = self.orig   # type: ignore


def check_shapes(shard: dict, timeout: float) -> dict:
    """A slice of the shape list: get_unitary, explicit-vs-stored parameters, get_statevector, parameter plumbing,
    nested CircuitGate, freeze_param - on atom gates."""
    import numpy as np
    import sympy as sp
    from bqskit.ir.circuit import Circuit
    from bqskit.ir.gates.circuitgate import CircuitGate
    from bqskit.qis.state.state import StateVector
    from vf import nra, sym
    AtomGate = _mk_gate_classes()
    all_shapes = shapes(shard['tier'])
    mine = all_shapes[shard['i']::shard['n']]
    res: dict = {'status': 'discharged', 'queries': 0, 'solver_s': 0.0, 'shapes': len(mine), 'detail': ''}
    t0 = time.perf_counter()
    mods = sym.patch_np(*_circuit_modules())
    try:
        with sym.sym_mode(), state_mode():
            for si, sh in enumerate(mine):
                if time.perf_counter() - t0 > timeout * 0.9:
                    res['status'] = 'inconclusive'
                    res['detail'] = 'time budget exhausted after %d of %d shapes' % (si, len(mine))
                    break
                rad = sh['rad']
                n = len(rad)
                dim = int(np.prod(rad))
                circ = Circuit(n, rad)
                gates = []
                npar = 0
                for gi, loc in enumerate(sh['ops']):
                    k = (gi + len(loc)) % 3          # 0, 1 or 2 parameters
                    g = AtomGate(gi, tuple(rad[q] for q in loc), k)
                    gates.append((g, loc, k))
                    circ.append_gate(g, loc, [0.0] * k)
                    npar += k
                thetas = [sp.Symbol('t%d' % i, real=True) for i in range(npar)]
                tsym = [sym.Sym(t) for t in thetas]
                # oracle: iteration order of the real circuit, explicit embedding
                ops = list(circ.operations_with_cycles())
                order = []
                pi = 0
                for cyc, op in ops:
                    order.append((op, pi))
                    pi += op.num_params
                if pi != npar or circ.num_params != npar:
                    return _refute(res, sh, 'num_params')
                O = sp.eye(dim)
                for op, p0 in order:
                    M = op.gate.matrix(tsym[p0:p0 + op.num_params])
                    O = embed(M, list(op.location), rad) * O
                atoms = sorted(O.free_symbols, key=lambda s: s.name)
                # 1. explicit parameters
                U1 = sym.to_matrix(circ.get_unitary(tsym)) if npar else sym.to_matrix(circ.get_unitary())
                if not _dec(res, 'get_unitary(params)', U1 - O, atoms, sh):
                    return res
                # 2. stored parameters
                if npar:
                    circ.set_params(tsym)
                    if [sym.Sym(x).e for x in circ.params] != thetas:
                        return _refute(res, sh, 'params-after-set_params')
                    U2 = sym.to_matrix(circ.get_unitary())
                    if not _dec(res, 'set_params+get_unitary', U2 - O, atoms, sh):
                        return res
                    for i in range(npar):
                        if sym.Sym(circ.get_param(i)).e != thetas[i]:
                            return _refute(res, sh, 'get_param')
                        c, q, k = circ.get_param_location(i)
                        if sym.Sym(circ[c, q].params[k]).e != thetas[i]:
                            return _refute(res, sh, 'get_param_location')
                    try:
                        circ.get_param_location(npar)
                        return _refute(res, sh, 'get_param_location-out-of-range-accepted')
                    except IndexError:
                        pass
                    # set_param of one index
                    z = sp.Symbol('z', real=True)
                    circ.set_param(npar - 1, sym.Sym(z))
                    U3 = sym.to_matrix(circ.get_unitary())
                    if not _dec(res, 'set_param', U3 - O.subs(thetas[-1], z), atoms + [z], sh):
                        return res
                    circ.set_params(tsym)
                # 3. state vector
                amps = [sp.Symbol('v%d' % i, real=True) for i in range(dim)]
                sv = StateVector(np.array([sym.Sym(a) for a in amps], dtype=object), rad)
                out = circ.get_statevector(sv, tsym) if npar else circ.get_statevector(sv)
                vec = sp.Matrix([sym.Sym(x).e for x in np.asarray(out._vec, dtype=object)])
                if not _dec(res, 'get_statevector', vec - O * sp.Matrix(amps), atoms + amps, sh):
                    return res
                # 3b. UnitaryBuilder directly: apply_right accumulates the product; eval_apply_right /
                #     eval_apply_left / apply_left with a fresh atom matrix X on every op location
                from bqskit.qis.unitary.unitarybuilder import UnitaryBuilder
                from bqskit.qis.unitary.unitarymatrix import UnitaryMatrix
                bld = UnitaryBuilder(n, rad)
                for op, p0 in order:
                    bld.apply_right(op.get_unitary(tsym[p0:p0 + op.num_params]), op.location)
                if not _dec(res, 'UnitaryBuilder.apply_right product', sym.to_matrix(bld.get_unitary()) - O, atoms, sh):
                    return res
                for li, loc0 in enumerate(sh['ops'][:2]):
                    X = AtomGate(90 + li, tuple(rad[q] for q in loc0), 0)
                    XM = X.matrix([])
                    Xarr = X.get_unitary()._utry
                    xat = sorted(XM.free_symbols, key=lambda s_: s_.name)
                    R = sym.to_matrix(np.asarray(bld.eval_apply_right(Xarr, loc0), dtype=object))
                    if not _dec(res, 'eval_apply_right', R - embed(XM, list(loc0), rad) * O, atoms + xat, sh):
                        return res
                    L = sym.to_matrix(np.asarray(bld.eval_apply_left(Xarr, loc0), dtype=object))
                    if not _dec(res, 'eval_apply_left', L - O * embed(XM, list(loc0), rad), atoms + xat, sh):
                        return res
                    b2 = UnitaryBuilder(n, rad)
                    b2.tensor = bld.tensor.copy()
                    b2.apply_left(X.get_unitary(), loc0)
                    if not _dec(res, 'apply_left', sym.to_matrix(b2.get_unitary()) - O * embed(XM, list(loc0), rad),
                                atoms + xat, sh):
                        return res
                    if all(r == 2 for r in rad):
                        env = np.asarray(bld.calc_env_matrix(list(loc0)), dtype=object)
                        k = len(loc0)
                        E = sp.zeros(2 ** k, 2 ** k)
                        rest = [q for q in range(n) if q not in loc0]
                        for a in range(2 ** k):
                            for b_ in range(2 ** k):
                                tot = 0
                                for r_ in range(2 ** len(rest)):
                                    dr = [0] * n
                                    dc = [0] * n
                                    for j, q in enumerate(loc0):
                                        dr[q] = (a >> (k - 1 - j)) & 1
                                        dc[q] = (b_ >> (k - 1 - j)) & 1
                                    for j, q in enumerate(rest):
                                        bit = (r_ >> (len(rest) - 1 - j)) & 1
                                        dr[q] = bit
                                        dc[q] = bit
                                    ri = int(''.join(map(str, dr)), 2)
                                    ci = int(''.join(map(str, dc)), 2)
                                    tot = tot + O[ri, ci]
                                E[a, b_] = tot
                        if not _dec(res, 'calc_env_matrix', sym.to_matrix(env) - E, atoms, sh):
                            return res
                # 4. nested: fold everything into one CircuitGate inside a wider/permuted circuit
                if si % 4 == 0 and n <= 2 and list(reversed(rad)) == list(rad):
                    outer_rad = list(rad) + [2]
                    perm_loc = list(reversed(range(n)))        # block applied on reversed qudits
                    outer = Circuit(n + 1, [rad[q] for q in perm_loc] + [2])
                    outer.append_gate(CircuitGate(circ), list(range(n)), tsym if npar else [])
                    Un = sym.to_matrix(outer.get_unitary())
                    On = embed(O, list(range(n)), [rad[q] for q in range(n)] + [2])
                    # radixes of the block must match the outer qudits it sits on
                    if [rad[q] for q in perm_loc] == list(rad):
                        if not _dec(res, 'nested CircuitGate', Un - On, atoms, sh):
                            return res
                # 5. freeze_param
                if npar and si % 3 == 0:
                    c2 = circ.copy()
                    c2.set_params([sp.Rational(1, 3) + i for i in range(npar)])
                    c2.freeze_param(0)
                    if c2.num_params != npar - 1:
                        return _refute(res, sh, 'freeze_param-num_params')
                    Uf = sym.to_matrix(c2.get_unitary(tsym[1:])) if npar > 1 else sym.to_matrix(c2.get_unitary())
                    if not _dec(res, 'freeze_param', Uf - O.subs(thetas[0], sp.Rational(1, 3)), atoms, sh):
                        return res
    finally:
        sym.unpatch_np(*mods)
    res['solver_s'] = round(res['solver_s'], 3)
    return res


def _refute(res: dict, sh: dict, what: str) -> dict:
    res['status'] = 'refuted'
    res['cex'] = {'shape': sh, 'identity': what}
    return res


def _dec(res: dict, name: str, D: Any, atoms: list, sh: dict) -> bool:
    from vf import nra
    r = nra.decide_zero(nra.matrix_entries(D), atoms, 60)
    res['queries'] += r.get('queries', 0)
    res['solver_s'] += r.get('solver_s', 0) or 0
    if r['status'] == 'refuted':
        res['status'] = 'refuted'
        res['cex'] = {'shape': sh, 'identity': name}
        return False
    if r['status'] != 'discharged' and res['status'] == 'discharged':
        res['status'] = r['status']
        res['detail'] = '%s on %r: %s' % (name, sh, r.get('detail'))
    return True


GRAD_CASES = {
    'quick': [
        ([2, 2], [('U3Gate()', [0]), ('RZZGate()', [0, 1])]),
        ([2, 2], [('CRYGate()', [1, 0]), ('U3Gate()', [1])]),
        ([2, 2, 2], [('RZZGate()', [2, 0]), ('U3Gate()', [1])]),
        ([2, 2, 2], [('CRYGate()', [0, 2]), ('RZZGate()', [1, 2])]),
        ([3], [('CKMGate()', [0])]),
        ([3, 2], [('RSU3Gate(3)', [0]), ('ArbitraryCPhaseGate([2, 3])', [1, 0]), ('U3Gate()', [1])]),
        ([2, 3, 2], [('RZZGate()', [2, 0]), ('RSU3Gate(1)', [1]), ('U3Gate()', [2])]),
    ],
    'thorough': [
        ([2, 2], [('U3Gate()', [0]), ('RZZGate()', [1, 0]), ('U3Gate()', [1])]),
        ([2, 2, 2], [('CRYGate()', [2, 0]), ('U3Gate()', [1]), ('RZZGate()', [1, 2])]),
        ([2, 2, 2], [('U3Gate()', [2]), ('CUGate()', [0, 2]), ('RZGate()', [1])]),
        ([3, 2], [('CKMGate()', [0]), ('U3Gate()', [1])]),
        ([2, 3], [('U3Gate()', [0]), ('CKMdgGate()', [1])]),
        ([2, 2, 2], [('CCPGate()', [2, 0, 1]), ('U3Gate()', [0])]),
    ],
}


def check_grad(shard: dict, timeout: float) -> dict:
    """Circuit.get_unitary_and_grad / get_grad on library gates with symbolic angles vs d/dtheta of
    the oracle product, for all real parameters."""
    import harness.C18 as c18
    c18._setup()
    import numpy as np
    import sympy as sp
    from bqskit.ir.circuit import Circuit
    from vf import nra, sym
    rad, ops = GRAD_CASES[shard['tier']][shard['i']] if shard['tier'] == 'quick' else \
        (GRAD_CASES['quick'] + GRAD_CASES['thorough'])[shard['i']]
    res: dict = {'status': 'discharged', 'queries': 0, 'solver_s': 0.0, 'detail': ''}
    circ = Circuit(len(rad), rad)
    gates = []
    for mk, loc in ops:
        g = c18._make(mk)
        gates.append(g)
        circ.append_gate(g, loc)
    npar = circ.num_params
    thetas = [sp.Symbol('t%d' % i, real=True) for i in range(npar)]
    tsym = [sym.Sym(t) for t in thetas]
    mods = _circuit_modules()
    for g in gates:
        mods += c18._gate_modules(g)
    mods = sym.patch_np(*mods)
    try:
        with sym.sym_mode(), c18.native_model():
            O = sp.eye(int(np.prod(rad)))
            pi = 0
            for cyc, op in circ.operations_with_cycles():
                M = c18.leaf_matrix(op.gate, tsym[pi:pi + op.num_params])
                pi += op.num_params
                O = embed(M, list(op.location), rad) * O
            U, G = circ.get_unitary_and_grad(tsym)
            Um = sym.to_matrix(U)
            G = np.asarray(G, dtype=object)
            if G.shape[0] != npar:
                return _refute(res, {'rad': rad, 'ops': ops}, 'grad-shape')
            sh = {'rad': rad, 'ops': ops}
            if not _dec2(res, 'unitary', Um - O, thetas, sh):
                return res
            for k in range(npar):
                if not _dec2(res, 'grad[%d]' % k, sym.to_matrix(G[k]) - sp.diff(O, thetas[k]), thetas, sh):
                    return res
            G2 = np.asarray(circ.get_grad(tsym), dtype=object)
            for k in range(npar):
                if not _dec2(res, 'get_grad[%d]' % k, sym.to_matrix(G2[k]) - sp.diff(O, thetas[k]), thetas, sh):
                    return res
    finally:
        sym.unpatch_np(*mods)
    res['solver_s'] = round(res['solver_s'], 3)
    return res


def _dec2(res: dict, name: str, D: Any, syms: list, sh: dict) -> bool:
    from vf import nra
    r = nra.decide_zero(nra.matrix_entries(D), syms, 90)
    res['queries'] += r.get('queries', 0)
    res['solver_s'] += r.get('solver_s', 0) or 0
    if r['status'] == 'refuted':
        res['status'] = 'refuted'
        res['cex'] = {'shape': sh, 'identity': name, 'params': r['cex']['params']}
        return False
    if r['status'] != 'discharged' and res['status'] == 'discharged':
        res['status'] = r['status']
        res['detail'] = '%s: %s' % (name, r.get('detail'))
    return True


def replay(shard: dict, cex: dict) -> tuple[bool, str]:
    """Random Haar unitaries (fixed seed) of the same shape through the unmodified numeric code
    vs a numpy oracle; gradient cases: finite differences at the solver's parameter vector."""
    import harness.C18 as c18
    c18._setup()
    import numpy as np
    from scipy.stats import unitary_group
    from bqskit.ir.circuit import Circuit
    from bqskit.ir.gates import ConstantUnitaryGate
    sh = cex['shape']
    rad = sh['rad']
    dim = int(np.prod(rad))
    if 'params' in cex or (sh['ops'] and isinstance(sh['ops'][0], (list, tuple)) and isinstance(sh['ops'][0][0], str)):
        import harness.C18 as c18
        c18._setup()
        circ = Circuit(len(rad), rad)
        for mk, loc in sh['ops']:
            circ.append_gate(c18._make(mk), loc)
        n = circ.num_params
        p = np.array([float(cex.get('params', {}).get('t%d' % i, 0.37 + 0.21 * i)) for i in range(n)])
        U, G = circ.get_unitary_and_grad(p)
        worst = 0.0
        for k in range(n):
            h = 1e-6
            pp, pm = p.copy(), p.copy()
            pp[k] += h
            pm[k] -= h
            fd = (circ.get_unitary(pp).numpy - circ.get_unitary(pm).numpy) / (2 * h)
            worst = max(worst, float(np.abs(np.asarray(G[k]) - fd).max()))
        O = np.eye(dim, dtype=complex)
        i = 0
        for _, op in circ.operations_with_cycles():
            M = op.gate.get_unitary(p[i:i + op.num_params]).numpy
            i += op.num_params
            O = np.array(embed(_np2sp(M), list(op.location), rad).tolist(), dtype=complex) @ O
        du = float(np.abs(np.asarray(U.numpy) - O).max())
        return (worst > 1e-5 or du > 1e-7), 'identity %s: |grad-fd|=%g |U-oracle|=%g at %r' % (cex['identity'], worst, du, list(p))
    if cex.get('identity') in ('get_param', 'get_param_location', 'get_param_location-out-of-range-accepted',
                               'params-after-set_params', 'num_params'):
        # parameter-index identities: same shape with numeric parameterised gates (VariableUnitaryGate of the op's radixes)
        from bqskit.ir.gates import VariableUnitaryGate
        circ = Circuit(len(rad), rad)
        for loc in sh['ops']:
            circ.append_gate(VariableUnitaryGate(len(loc), [rad[q] for q in loc]), loc)
        npar = circ.num_params
        vals = [float(i + 1) for i in range(npar)]
        circ.set_params(vals)
        bad = []
        if [float(x) for x in circ.params] != vals:
            bad.append('params != what set_params stored')
        flat = []
        for _, op in circ.operations_with_cycles():
            flat.extend(float(x) for x in op.params)
        if flat != vals:
            bad.append('params not in operation order')
        for i in range(npar):
            if float(circ.get_param(i)) != vals[i]:
                bad.append('get_param(%d)=%r, params[%d]=%r' % (i, float(circ.get_param(i)), i, vals[i]))
                break
            c, q, k = circ.get_param_location(i)
            if float(circ[c, q].params[k]) != vals[i]:
                bad.append('get_param_location(%d)=%r points at %r, params[%d]=%r' % (i, (c, q, k), float(circ[c, q].params[k]), i, vals[i]))
                break
        try:
            circ.get_param_location(npar)
            bad.append('get_param_location(num_params) accepted')
        except IndexError:
            pass
        return bool(bad), 'identity %s on %r: %s' % (cex['identity'], sh, '; '.join(bad) or 'indices agree')
    rng = np.random.RandomState(11)
    circ = Circuit(len(rad), rad)
    for loc in sh['ops']:
        d = int(np.prod([rad[q] for q in loc]))
        circ.append_gate(ConstantUnitaryGate(unitary_group.rvs(d, random_state=rng) if d > 1 else np.eye(1),
                                             [rad[q] for q in loc]), loc)
    O = np.eye(dim, dtype=complex)
    for _, op in circ.operations_with_cycles():
        O = np.array(embed(_np2sp(op.get_unitary().numpy), list(op.location), rad).tolist(), dtype=complex) @ O
    U = circ.get_unitary().numpy
    v = rng.randn(dim) + 1j * rng.randn(dim)
    v /= np.linalg.norm(v)
    sv = circ.get_statevector(v).numpy
    e1, e2 = float(np.abs(U - O).max()), float(np.abs(sv - O @ v).max())
    return (e1 > 1e-8 or e2 > 1e-8), 'identity %s on %r: |U-oracle|=%g |state-oracle|=%g' % (cex['identity'], sh, e1, e2)


def _np2sp(M: Any) -> Any:
    import sympy as sp
    import numpy as np
    M = np.asarray(M)
    return sp.Matrix(M.shape[0], M.shape[1], lambda i, j: complex(M[i, j]))


# ---------------------------------------------------------------------------------------------
# index part (E1): restricted iteration
# ---------------------------------------------------------------------------------------------

@rt.natively
def _region_iter_body(x0: int, x1: int, x2: int, x3: int, x4: int, x5: int, x6: int, x7: int, x8: int, x9: int,
      x10: int, x11: int, x12: int, x13: int, x14: int, x15: int, x16: int,
      m0: int, m1: int, m2: int, l0: int, h0: int, l1: int, h1: int, l2: int, h2: int, ex: int, rev: int) -> bool:
    from harness.circ_common import Tags, build_pre
    from vf.circ_oracle import grid
    rt.begin()
    S = rt.SHARD
    W, npre = S['W'], S['npre']
    xs = [x0, x1, x2, x3, x4, x5, x6, x7, x8, x9, x10, x11, x12, x13, x14, x15, x16][:5 * npre + 2]
    circ = build_pre(W, npre, xs, Tags())
    if circ is None:
        return True
    n = circ.num_cycles
    if n == 0:
        return True
    region = {}
    mm, lo, hi = [m0, m1, m2], [l0, l1, l2], [h0, h1, h2]
    mode = S['mode']
    for q in range(W):
        m = rt.P(mm[q], 0, 1)
        if m == 1:
            if mode == 'region':
                a = rt.P(lo[q], 0, n - 1)
                b = rt.P(hi[q], a, n - 1)
                region[q] = (a, b)
            else:
                region[q] = (0, n - 1)
    if not region:
        return True
    exclude = bool(rt.P(ex, 0, 1))
    reverse = bool(rt.P(rev, 0, 1))
    rt.reach()

    def run() -> Any:
        arg = region if mode == 'region' else sorted(region.keys())
        got = [(c, tuple(op.location), op.gate) for c, op in
               circ.operations_with_cycles(qudits_or_region=arg, exclude=exclude, reverse=reverse)]
        g = grid(circ)
        exp = []
        seen = set()
        for c in range(n):
            for q in range(W):
                op = g[c][q]
                if op is None or (c, op.location[0]) in seen:
                    continue
                inside = [(qq in region and region[qq][0] <= c <= region[qq][1]) for qq in op.location]
                if (all(inside) if exclude else any(inside)):
                    seen.add((c, op.location[0]))
                    exp.append((c, tuple(op.location), op.gate))
        return got, exp
    try:
        got, exp = rt.nt(run)
    except Exception as e:
        if rt.CONCRETE:
            rt.log('operations_with_cycles raised', repr(e), 'region', region)
        return rt.fail('restricted-iteration-raised:%s' % type(e).__name__)
    if rt.CONCRETE:
        rt.log('circuit', repr(circ), 'region', region, 'exclude', exclude, 'reverse', reverse)
        rt.log('got', got)
        rt.log('expected (as a set; order = compatible with cycles)', exp)
    if sorted((c, l) for c, l, _ in got) != sorted((c, l) for c, l, _ in exp) or len(got) != len(exp):
        return rt.fail('restricted-iteration-set')
    cyc = [c for c, _, _ in got]
    if cyc != sorted(cyc, reverse=reverse):
        return rt.fail('restricted-iteration-order')
    return True


def region_iter(x0: int, x1: int, x2: int, x3: int, x4: int, x5: int, x6: int, x7: int, x8: int, x9: int,
                x10: int, x11: int, x12: int, x13: int, x14: int, x15: int, x16: int,
                m0: int, m1: int, m2: int, l0: int, h0: int, l1: int, h1: int, l2: int, h2: int, ex: int, rev: int) -> bool:
    """
    post: _
    """
    return _region_iter_body(x0, x1, x2, x3, x4, x5, x6, x7, x8, x9, x10, x11, x12, x13, x14, x15, x16, m0, m1, m2, l0, h0, l1, h1, l2, h2, ex, rev)


def obligations(tier: str) -> list[dict]:
    obs = []
    n = 16 if tier == 'quick' else 48
    for i in range(n):
        obs.append({'name': 'shapes/%d-of-%d' % (i, n), 'func': 'check_shapes', 'kind': 'direct',
                    'shard': {'tier': tier, 'i': i, 'n': n}, 'timeout': 300 if tier == 'quick' else 2400})
    cases = GRAD_CASES['quick'] if tier == 'quick' else GRAD_CASES['quick'] + GRAD_CASES['thorough']
    for i in range(len(cases)):
        obs.append({'name': 'grad/%d' % i, 'func': 'check_grad', 'kind': 'direct', 'shard': {'tier': tier, 'i': i},
                    'timeout': 300 if tier == 'quick' else 1800})
    def it(mode: str, W: int, npre: int, codes: list, timeout: int, pin: dict | None = None) -> None:
        sh = {'W': W, 'npre': npre, 'mode': mode, 'codes': codes, 'prepop': tier != 'quick'}
        name = 'iter/%s/W%d/pre%d' % (mode, W, npre)
        if codes != [1, 2, 3]:
            name += '/codes' + ''.join(map(str, codes))
        if pin:
            sh['pin'] = pin
            name += '/pin' + '.'.join('%s=%s' % kv for kv in sorted(pin.items()))
        obs.append({'name': name, 'func': 'region_iter', 'shard': sh, 'timeout': timeout})

    if tier == 'quick':
        for mode in ('region', 'qudits'):
            it(mode, 2, 2, [1, 2, 3], 200)
        it('region', 3, 1, [1, 2, 3], 200)
        for c0 in (0, 1):                        # multi-qudit gates only; with 1-qudit gates: thorough tier
            it('qudits', 3, 2, [2, 3], 200, {'0': c0})
    else:
        for mode in ('region', 'qudits'):
            it(mode, 2, 3, [1, 2, 3], 2400)
            for c0 in (0, 1, 2):                 # W3/pre2 cut by the kind of the first inserted gate
                for c1 in (0, 1, 2):
                    it(mode, 3, 2, [1, 2, 3], 1200, {'0': c0, '5': c1})
            it(mode, 3, 3, [2, 3], 2400, {'0': 0, '5': 1})
    return obs
