"""CrossHair entry + oracles for the simulated-runtime properties.

Symbolic inputs = the schedule: up to two deviations (decision index p, rank r of the
alternative taken there) from the baseline policy and, for C14, one or two crash events (step
index, node index). They are split by solver-decided ladders (ranges derived from the
baseline run) and the scenario then runs natively on the real node objects.
"""
from __future__ import annotations

from collections import Counter
from typing import Any

from harness import rt_common as R
from vf import rt


def sim(p1: int, r1: int, p2: int, r2: int, cs: int, cn: int, cs2: int, cn2: int) -> bool:
    """
    post: _
    """
    rt.begin()
    S = rt.SHARD
    topo, shapes, kind = S['topo'], S['shapes'], S.get('kind', 'detached')
    line = bool(S.get('line', False))
    K = int(S.get('K', 2))
    key = '%s|%s|%s|%s' % (topo, ','.join(shapes), kind, line)
    base = R.baseline_decisions(key, topo, shapes, kind, line, 3000)
    hi = base + int(S.get('slack', 6))
    maxrank = int(S.get('maxrank', 2))
    dev: dict = {}
    lo1, hi1 = -1, (hi if K >= 1 else -1)           # -1 = no deviation
    if 'p1_shard' in S and K >= 1:
        # a big obligation is cut into shards by the position of the FIRST deviation; the cut points
        # balance the number of (p1, p2) pairs; the shards' ranges tile [-1, hi] exactly
        lo1, hi1 = p1_bounds(hi, int(S['p1_shard'][0]), int(S['p1_shard'][1]))
    a = rt.P(p1, lo1, hi1)
    if a is None:
        return True
    if a >= 0:
        ra = rt.P(r1, 1, maxrank)
        dev[a] = ra
        b = rt.P(p2, a, hi if K >= 2 else a)         # == a : no second deviation
        if b is None:
            return True
        if b > a:
            rb = rt.P(r2, 1, maxrank)
            dev[b] = rb
    crashes: dict = {}
    ncr = int(S.get('crashes', 0))
    nodes = S.get('crash_nodes', [])
    if ncr >= 1:
        steps_hi = int(S.get('crash_hi', 3 * base + 20))
        c1 = rt.P(cs, 0, steps_hi)
        n1 = rt.P(cn, 0, len(nodes) - 1)
        crashes[c1] = nodes[n1]
        if ncr >= 2:
            c2 = rt.P(cs2, c1, steps_hi)          # == c1: no second crash
            if c2 > c1:
                n2 = rt.P(cn2, 0, len(nodes) - 1)
                crashes[c2] = nodes[n2]
    r = rt.nt(R.run_scenario, topo, shapes, dev, crashes, kind, line, 4 * base + 300)
    rt.reach()
    fp = rt.nt(judge, S, r)
    if rt.CONCRETE:
        rt.log('scenario', topo, shapes, 'deviations', dev, 'crashes', crashes)
        for ln in r['trace'][-60:]:
            rt.log(ln)
        rt.log('clients', r['clients'], 'done', r['client_done'], 'reason', r['reason'], 'errors', r['errors'])
        rt.log('log', r['log'])
        if 'world' in r:
            rt.log('tables', R.tables(r['world']))
    if fp is not None:
        return rt.fail(fp)
    return True


def p1_bounds(hi: int, j: int, n: int) -> tuple:
    cuts = [-2] + [int(hi * (1 - (1 - k / n) ** 0.5)) for k in range(1, n)] + [hi]
    return cuts[j] + 1, cuts[j + 1]


def chain_text(res: Any) -> str:
    return ' '.join(str(x) for x in res) if isinstance(res, tuple) else str(res)


def judge(S: dict, r: dict) -> str | None:
    oracle = S['oracle']
    shapes = S['shapes']
    w = r['world']
    crashed = bool(r['crashed'])
    if r['reason'] != 'quiescent':
        return 'no-quiescence-within-horizon'
    # an exception escaping a simulated thread = a node's loop died with an internal error
    for name, typ, msg in r['errors']:
        if crashed and typ in ('EOFError', 'ConnectionResetError', 'OSError', 'BrokenPipeError'):
            continue
        role = name.split('.')[0].rstrip('0123456789') + ('.' + name.split('.')[1] if '.' in name else '')
        return 'thread-exception:%s:%s:%s' % (role, typ, str(msg)[:50])
    # no client waits forever
    for i, done in enumerate(r['client_done']):
        if not done:
            return 'client-blocked-forever:%s' % r['client_label'][i].split(' ')[0]
    log = Counter(r['log'])
    expected_runs: Counter = Counter()
    for shape in shapes:
        for tag in R.ONCE.get(shape, ()):
            expected_runs[tag] += 1
    for i, shape in enumerate(shapes):
        res = r['clients'][i]
        if crashed:
            # C14: an exception, or the complete correct output computed before the crash
            if res[0] == 'ok':
                if shape in R.EXPECT and res[1] != R.EXPECT[shape]:
                    return 'crash:wrong-result-returned'
            elif res[0] != 'exc':
                return 'crash:client-got-nothing'
            continue
        if shape == 'raise_late':
            # the failing sibling may report after the result went out: if its body ran, the client must be told
            # at the latest on its next call once the system is quiet
            if ('boom', 2) in log and 'boom-2' not in chain_text(res[1]):
                return 'raise:late-error-never-reported'
            continue
        if shape in R.RAISE_SHAPES:
            if res[0] == 'ok':
                return 'raise:client-got-a-result'
            if 'boom-2' not in chain_text(res):
                return 'raise:original-message-lost'
            continue
        if shape == 'await_cancelled':
            # awaiting a cancelled future fails: the worker refuses the await and the compilation errors out
            if res[0] != 'exc' or 'cancel' not in chain_text(res).lower():
                return 'await-cancelled-did-not-fail'
            continue
        if res[0] != 'ok':
            txt = chain_text(res).replace('\\n', '\n')
            errs = [ln.strip() for ln in txt.split('\n') if ('Error' in ln or 'Exception' in ln) and ':' in ln]
            fns = [ln.strip().split(' in ')[-1] for ln in txt.split('\n') if ln.strip().startswith('File ') and ' in ' in ln]
            return 'spurious-error:%s@%s' % ((errs[-1].split(':')[0] if errs else str(res[1])), fns[-1] if fns else '?')
        if res[1] != R.EXPECT[shape]:
            return 'wrong-result:%s' % shape
        # every body exactly once; with several clients the same tag may be expected once per client
        for tag in R.ONCE[shape]:
            if log[tag] != expected_runs[tag]:
                return 'body-ran-%d-times:%s' % (log[tag], tag[0])
        for tag, n in log.items():
            if n > max(1, expected_runs[tag]):
                return 'body-ran-%d-times:%s' % (n, tag[0])
    if crashed:
        # the rest of the runtime shuts down rather than continuing in a damaged state
        if oracle == 'crash':
            if any(e[0] == 'ran-after-shutdown' for e in r['log'] if isinstance(e, tuple)):
                return 'crash:worker-kept-running-task-code-after-it-processed-shutdown'
            if w.server.running and 'server' not in r['crashed']:
                return 'crash:server-still-running'
            for m in w.managers:
                if m.running and m._sim_name not in r['crashed']:
                    return 'crash:manager-still-running'
        return None
    if (oracle == 'cancel' or oracle == 'tables') and 'await_cancelled' not in shapes and \
            not any(sh in R.RAISE_SHAPES for sh in shapes):
        t = R.tables(w)
        for name, d in t.items():
            for k, v in d.items():
                if v != 0:
                    return 'leftover:%s.%s' % (name.rstrip('0123456789'), k)
    if oracle == 'counters' and not any(s in R.RAISE_SHAPES for s in shapes):
        cancelling = any(s in R.CANCEL_SHAPES for s in shapes)
        s = w.server
        if not w.managers:
            if s.num_idle_workers != s.total_workers:
                return 'counters:server-idle-belief-%d-of-%d' % (s.num_idle_workers, s.total_workers)
            for e in s.employees:
                if e.num_tasks != 0:
                    return 'counters:num_tasks=%d-at-quiescence' % e.num_tasks
                if e.num_idle_workers != e.total_workers:
                    return 'counters:employee-idle-belief'
        for node in [s] + list(w.managers):
            for e in node.employees:
                if e.num_tasks < 0:
                    return 'counters:negative-num_tasks'
                if not (0 <= e.num_idle_workers <= e.total_workers):
                    return 'counters:idle-out-of-bounds'
        # every task created was forwarded to exactly one worker
        if cancelling:
            return None
        from bqskit.runtime.message import RuntimeMessage
        got: Counter = Counter()
        for wk in w.workers:
            boss_side = wk._conn.peer
            for (msg, payload) in boss_side.sent_log:
                if msg == RuntimeMessage.SUBMIT_BATCH:
                    for t in payload:
                        got[t.return_address] += 1
                elif msg == RuntimeMessage.SUBMIT:
                    got[payload.return_address] += 1
        for addr, n in got.items():
            if n != 1:
                return 'counters:task-forwarded-%d-times' % n
        made = sum(len(R.ONCE[sh]) for sh in shapes) + len(shapes)
        if len(got) != made:
            return 'counters:%d-tasks-forwarded-of-%d' % (len(got), made)
    return None


def obs_sharded(n: int, name: str, *a: Any, **kw: Any) -> list:
    """The obligation cut into n shards by the position of the first deviation."""
    return [ob('%s/p1-%dof%d' % (name, j + 1, n), *a, p1_shard=[j, n], **kw) for j in range(n)]


def ob(name: str, topo: str, shapes: list, oracle: str, K: int = 2, timeout: int = 240, **kw: Any) -> dict:
    sh = {'topo': topo, 'shapes': shapes, 'oracle': oracle, 'K': K}
    sh.update(kw)
    return {'name': name, 'func': 'sim', 'shard': sh, 'timeout': timeout}
