"""C11 helpers: inline runtime, instrumented body passes, scripted predicates, normal forms of
circuits / PassData, and the reference interpreter for trees of control passes.

Everything that is *instrumentation* lives in module-level state `H` because BQSKit deep-copies
passes (Workflow copy constructor) and the runtime ships (function, args) through dill
(RuntimeTask.fnargs - which the inline runtime really does), so instance state would be lost.
"""
from __future__ import annotations

import inspect
import pickle
from fractions import Fraction
from typing import Any

import numpy as np

from bqskit.compiler.basepass import BasePass
from bqskit.compiler.machine import MachineModel
from bqskit.compiler.passdata import PassData
from bqskit.compiler.workflow import Workflow
from bqskit.ir.circuit import Circuit
from bqskit.ir.gates.circuitgate import CircuitGate
from bqskit.passes.control import foreach as _foreach_mod
from bqskit.passes.control import paralleldo as _paralleldo_mod
from bqskit.passes.control.dothendecide import DoThenDecide
from bqskit.passes.control.dowhileloop import DoWhileLoopPass
from bqskit.passes.control.foreach import ForEachBlockPass
from bqskit.passes.control.ifthenelse import IfThenElsePass
from bqskit.passes.control.paralleldo import ParallelDo
from bqskit.passes.control.predicate import PassPredicate
from bqskit.passes.control.predicates.andpredicate import AndPredicate
from bqskit.passes.control.predicates.change import ChangePredicate
from bqskit.passes.control.predicates.count import GateCountPredicate
from bqskit.passes.control.predicates.notpredicate import NotPredicate
from bqskit.passes.control.predicates.orpredicate import OrPredicate
from bqskit.passes.control.predicates.width import WidthPredicate
from bqskit.passes.control.whileloop import WhileLoopPass
from bqskit.qis.graph import CouplingGraph
from bqskit.qis.unitary.unitarymatrix import UnitaryMatrix
from bqskit.runtime.address import RuntimeAddress
from bqskit.runtime.task import RuntimeTask
from vf import rt
from vf.circ_oracle import TG, flat_of, op_key, top_seqs

import bqskit.compiler.workflow as _workflow_mod


# --------------------------------------------------------------------------- state
class _H:
    def reset(self) -> None:
        self.trace: list = []          # what the real run did
        self.script: list = []         # concrete predicate outcomes still to be consumed
        self.beh: dict = {}            # body id -> behaviour
        self.count: dict = {}          # body id -> number of edits done
        self.n = 0                     # body executions so far
        self.next_order: list = []     # batches returned by runtime.next()
        self.ship_results = False      # results cross a process boundary too
        self.serialize = True          # arguments go through RuntimeTask (dill) as in the real runtime
        self.mbox = 0
        # ForEach family
        self.fe_collect: dict = {}
        self.fe_replace: dict = {}
        self.fe_beh: dict = {}
        self.fe_err: dict = {}
        RuntimeTask.task_counter = 0


H = _H()
H.reset()


class BodyError(Exception):
    def __init__(self, bid: int) -> None:
        super().__init__('body %d fails' % bid)
        self.bid = bid

    def __reduce__(self) -> Any:
        return (BodyError, (self.bid,))


class ScriptOverrun(Exception):
    """The real code evaluated more predicates than the reference run dictated."""


class Runaway(Exception):
    """Safety net against non-terminating loops in the code under test."""


class OutOfBound(Exception):
    """Reference run needs more scripted outcomes than the stated bound (path discarded)."""


# --------------------------------------------------------------------------- inline runtime
def drive(coro: Any) -> Any:
    """Runs a coroutine to completion (the inline runtime never suspends)."""
    try:
        coro.send(None)
    except StopIteration as e:
        return e.value
    raise AssertionError('coroutine suspended on the inline runtime')


class StubFuture:
    def __init__(self, results: list) -> None:
        self.results = results
        self.cancelled = 0

    def __await__(self) -> Any:
        if False:
            yield
        return self.results


class StubRuntime:
    """map(): like Worker.map groups (fn, args, kwargs) per task, ships each through a real
    RuntimeTask (dill round trip of the arguments), runs the tasks to completion in argument
    order. next(): the batch order chosen by the harness. cancel(): recorded."""

    def map(self, fn: Any, *args: Any, **kwargs: Any) -> StubFuture:
        kwargs.pop('task_name', None)
        kwargs.pop('log_context', None)
        if len(args) == 1:
            fnargs = [(fn, (a,), kwargs) for a in args[0]]
        else:
            fnargs = [(fn, sub, kwargs) for sub in zip(*args)]
        if len(fnargs) == 0:
            raise RuntimeError('Unable to map 0 tasks.')
        H.mbox += 1
        results = []
        for i, fa in enumerate(fnargs):
            if H.serialize:
                task = RuntimeTask(fa, RuntimeAddress(0, H.mbox, i), 0, ())
                f, a, k = task.fnargs
            else:
                f, a, k = fa
            r = f(*a, **k)
            if inspect.iscoroutine(r):
                r = drive(r)
            if H.ship_results:
                r = pickle.loads(pickle.dumps(r))
            results.append(r)
        return StubFuture(results)

    def submit(self, fn: Any, *args: Any, **kwargs: Any) -> StubFuture:
        fut = self.map(fn, *[[a] for a in args], **kwargs) if args else self.map(lambda _: fn(**kwargs), [0])
        fut.results = fut.results[0]
        return fut

    async def next(self, future: StubFuture) -> list:
        order = H.next_order.pop(0) if H.next_order else list(range(len(future.results)))
        H.trace.append(('next', tuple(order)))
        return [(i, future.results[i]) for i in order]

    def cancel(self, future: StubFuture) -> None:
        future.cancelled += 1
        H.trace.append(('cancel',))


RUNTIME = StubRuntime()


def _get_runtime() -> StubRuntime:
    return RUNTIME


def _no_seed(seed: int) -> None:
    return None


# the control passes imported the name; patch it where they look it up
_foreach_mod.get_runtime = _get_runtime            # type: ignore
_paralleldo_mod.get_runtime = _get_runtime         # type: ignore
_workflow_mod.seed_random_sources = _no_seed       # type: ignore  (ctypes libc lookup per pass)


# --------------------------------------------------------------------------- normal forms
def _r(x: Any) -> Any:
    if isinstance(x, Fraction):
        return round(float(x), 12)
    if isinstance(x, float):
        return round(x, 12)
    return x


def nf_model(m: MachineModel) -> tuple:
    return ('model', m.num_qudits, tuple(sorted(tuple(sorted(e)) for e in m.coupling_graph)),
            tuple(m.radixes), tuple(sorted(repr(g) for g in m.gate_set)))


def nf_utry(u: UnitaryMatrix) -> tuple:
    a = np.asarray(u.numpy).ravel()
    return ('utry', tuple(u.radixes), tuple((round(float(z.real), 9), round(float(z.imag), 9)) for z in a))


def nf_top(circ: Circuit) -> tuple:
    """Per qudit the sequence of (cycle, key of the top-level op, index of the qudit in its location)."""
    return tuple(tuple((c, op_key(op), j) for (c, op, j) in seq) for seq in top_seqs(circ))


def nf_value(v: Any) -> Any:
    if isinstance(v, PassData):
        return ('passdata', tuple(sorted(nf_data(v).items())))
    if isinstance(v, Circuit):
        return ('circ', flat_of(v))
    if isinstance(v, UnitaryMatrix):
        return nf_utry(v)
    if isinstance(v, MachineModel):
        return nf_model(v)
    if isinstance(v, dict):
        return ('dict', tuple(sorted((repr(k), nf_value(x)) for k, x in v.items())))
    if isinstance(v, (list, tuple)):
        return ('seq', tuple(nf_value(x) for x in v))
    if isinstance(v, (bool, int, str, type(None))):
        return v
    if isinstance(v, (float, Fraction)):
        return _r(v)
    return ('obj', repr(v))


OPAQUE_KEYS = (ChangePredicate.key,)   # values are hashes of reprs: compared by presence only


def nf_data(d: PassData) -> dict:
    """EVERY attribute the instance carries (so a newly added field is compared too)."""
    out = {}
    for name, val in vars(d).items():
        if name == '_data':
            val = {k: ('opaque' if k in OPAQUE_KEYS else x) for k, x in val.items()}
        if name == '_target' and isinstance(val, Circuit):
            out[name] = ('circuit-target',)     # lazy-target path (tagged gates have no unitary)
            continue
        out[name] = nf_value(val)
    return out


def _leaf_field(a: Any, b: Any, last: str) -> str:
    """Name of the innermost PassData attribute on the path to the first difference."""
    if isinstance(a, tuple) and isinstance(b, tuple) and len(a) == len(b):
        if len(a) == 2 and a[0] == 'passdata' and b[0] == 'passdata':
            da, db = dict(a[1]), dict(b[1])
            for k in da:
                if k in db and da[k] != db[k]:
                    return _leaf_field(da[k], db[k], k)
            return last
        for x, y in zip(a, b):
            if x != y:
                return _leaf_field(x, y, last)
    return last


def first_diff(a: dict, b: dict) -> str | None:
    for k in a:
        if k not in b:
            return k + ':missing'
        if a[k] != b[k]:
            return _leaf_field(a[k], b[k], k)
    for k in b:
        if k not in a:
            return k + ':unexpected'
    return None


# --------------------------------------------------------------------------- reference circuit / data
class RC:
    """Reference circuit: top-level operations in a topological order.
    op = [location tuple, key, cycle]; key = ('T', tag) or ('B', RC)."""

    def __init__(self, W: int) -> None:
        self.W = W
        self.ops: list = []

    def copy(self) -> 'RC':
        c = RC(self.W)
        c.ops = [[loc, (k if k[0] == 'T' else ('B', k[1].copy())), cyc] for (loc, k, cyc) in self.ops]
        return c

    def flat(self) -> tuple:
        lines: list = [[] for _ in range(self.W)]
        for loc, k, _ in self.ops:
            if k[0] == 'T':
                for j, q in enumerate(loc):
                    lines[q].append((k[1], j, k[2] if len(k) > 2 else ()))
            else:
                inner = k[1].flat()
                for j, q in enumerate(loc):
                    lines[q].extend(inner[j])
        return tuple(tuple(x) for x in lines)

    def top(self) -> tuple:
        """Same shape as nf_top without the cycle (None cycles are not compared)."""
        lines: list = [[] for _ in range(self.W)]
        for loc, k, cyc in self.ops:
            key = ('T', k[1], k[2] if len(k) > 2 else ()) if k[0] == 'T' else ('B', k[1].flat())
            for j, q in enumerate(loc):
                lines[q].append((cyc, key, j))
        return tuple(tuple(x) for x in lines)

    def num_single(self) -> int:
        return sum(1 for loc, _, _ in self.ops if len(loc) == 1)


def rc_from(circ: Circuit, params: Any = None) -> RC:
    """Before-state read from the real circuit through the public API. `params` (for the inner circuit of a
    block) are the owning operation's parameters, consumed in iteration order."""
    rc = RC(circ.num_qudits)
    i = 0
    for cyc, op in circ.operations_with_cycles():
        ps = list(op.params) if params is None else list(params[i:i + op.num_params])
        i += op.num_params
        if isinstance(op.gate, CircuitGate):
            key: tuple = ('B', rc_from(op.gate._circuit, ps))
        else:
            key = ('T', op.gate.tag) if not ps else ('T', op.gate.tag, tuple(ps))
        rc.ops.append([tuple(op.location), key, cyc])
    return rc


def same_top(real: tuple, ref: tuple) -> bool:
    if len(real) != len(ref):
        return False
    for a, b in zip(real, ref):
        if len(a) != len(b):
            return False
        for (c1, k1, j1), (c2, k2, j2) in zip(a, b):
            if k1 != k2 or j1 != j2:
                return False
            if c2 is not None and c1 != c2:
                return False
    return True


def u_const(w: int, k: int) -> UnitaryMatrix:
    """Two recognisable targets of width w: identity and X on qudit 0."""
    if k == 0:
        return UnitaryMatrix.identity(2 ** w)
    x = np.array([[0, 1], [1, 0]], dtype=np.complex128)
    return UnitaryMatrix(np.kron(x, np.identity(2 ** (w - 1))))


def default_gateset_nf(w: int) -> tuple:
    return tuple(sorted(repr(g) for g in MachineModel(w).gate_set))


class RD:
    """Reference pass data (plain values)."""

    def __init__(self, w: int) -> None:
        self.w = w
        self.placement = list(range(w))
        self.imap = list(range(w))
        self.fmap = list(range(w))
        self.error: Any = Fraction(0)
        self.seed: Any = None
        self.medges: set = {(a, b) for a in range(w) for b in range(a + 1, w)}
        self.mn = w
        self.tk: Any = None            # None: target is (an alias / copy of) the circuit itself
        self.user: dict = {}

    def copy(self) -> 'RD':
        d = RD(self.w)
        d.placement, d.imap, d.fmap = list(self.placement), list(self.imap), list(self.fmap)
        d.error, d.seed, d.medges, d.mn, d.tk = self.error, self.seed, set(self.medges), self.mn, self.tk
        d.user = _deep(self.user)
        return d

    def nf(self, rc: RC) -> dict:
        return {
            '_target': ('circuit-target',) if self.tk is None else nf_utry(u_const(self.w, self.tk)),
            '_error': _r(self.error),
            '_model': ('model', self.mn, tuple(sorted(self.medges)), tuple([2] * self.mn), default_gateset_nf(self.mn)),
            '_placement': ('seq', tuple(self.placement)),
            '_initial_mapping': ('seq', tuple(self.imap)),
            '_final_mapping': ('seq', tuple(self.fmap)),
            '_data': nf_ref_value({k: ('opaque' if k in OPAQUE_KEYS else v) for k, v in self.user.items()}),
            '_seed': self.seed,
        }


class RDwithRC:
    """A finished block's data together with the block circuit it refers to."""

    def __init__(self, rd: RD, rc: RC) -> None:
        self.rd, self.rc = rd, rc


def _deep(v: Any) -> Any:
    if isinstance(v, dict):
        return {k: _deep(x) for k, x in v.items()}
    if isinstance(v, list):
        return [_deep(x) for x in v]
    if isinstance(v, tuple):
        return tuple(_deep(x) for x in v)
    if isinstance(v, RDwithRC):
        return RDwithRC(v.rd.copy(), v.rc.copy())
    return v


def nf_ref_value(v: Any) -> Any:
    if isinstance(v, RDwithRC):
        return ('passdata', tuple(sorted(v.rd.nf(v.rc).items())))
    if isinstance(v, dict):
        return ('dict', tuple(sorted((repr(k), nf_ref_value(x)) for k, x in v.items())))
    if isinstance(v, (list, tuple)):
        return ('seq', tuple(nf_ref_value(x) for x in v))
    if isinstance(v, (float, Fraction)) and not isinstance(v, bool):
        return _r(v)
    return v


class State:
    def __init__(self, rc: RC, rd: RD) -> None:
        self.rc, self.rd = rc, rd

    def copy(self) -> 'State':
        return State(self.rc.copy(), self.rd.copy())


# --------------------------------------------------------------------------- the body (real side)
BEH_EDIT, BEH_NOOP, BEH_RAISE = 0, 1, 2
EDIT_LIMIT = 2     # a body edits during its first EDIT_LIMIT executions only (loops on Change/Count end)


def rot_l(x: list) -> None:
    if x:
        x.append(x.pop(0))


def rot_r(x: list) -> None:
    if x:
        x.insert(0, x.pop())


class Body(BasePass):
    """Instrumented leaf pass. Records what it was given; then behaves as scripted."""

    def __init__(self, bid: int) -> None:
        self.bid = bid

    async def run(self, circuit: Circuit, data: PassData) -> None:
        real_body(self.bid, circuit, data)


def real_body(bid: int, circuit: Circuit, data: PassData) -> None:
    H.n += 1
    if H.n > 80:
        raise Runaway('more than 80 body executions')
    H.trace.append(('body', bid, flat_of(circuit), nf_data(data)))
    beh = H.beh.get(bid, BEH_NOOP)
    if beh == BEH_RAISE:
        raise BodyError(bid)
    if beh == BEH_NOOP or H.count.get(bid, 0) >= EDIT_LIMIT:
        return
    H.count[bid] = H.count.get(bid, 0) + 1
    w = circuit.num_qudits
    circuit.append_gate(TG(1000 * bid + H.n, 1), [H.n % w])
    # every reserved field is edited; lists and the user value are mutated IN PLACE, so a shallow
    # snapshot taken by a control pass would be corrupted
    rot_l(data.placement)
    rot_l(data.initial_mapping)
    rot_r(data.final_mapping)
    data.error = data.error + 0.125
    data.seed = (data.seed or 0) + bid + 1
    if w >= 2:
        old = data.model
        edges = {tuple(sorted(e)) for e in old.coupling_graph}
        edges ^= {(0, 1)}
        data.model = MachineModel(old.num_qudits, CouplingGraph(sorted(edges), old.num_qudits), old.gate_set, old.radixes)
    if 'user' not in data:
        data['user'] = []
    data['user'].append(bid)
    if isinstance(data._target, UnitaryMatrix):
        data.target = u_const(w, 1) if data._target == u_const(w, 0) else u_const(w, 0)


class ScriptPred(PassPredicate):
    def get_truth_value(self, circuit: Circuit, data: PassData) -> bool:
        return script_pop('pred')


def script_pop(who: str) -> bool:
    if not H.script:
        raise ScriptOverrun(who)
    return H.script.pop(0)


def dtd_cond(old: Circuit, new: Circuit) -> bool:
    v = script_pop('dtd')
    H.trace.append(('cond', flat_of(old), flat_of(new), v))
    return v


def pd_less(a: Circuit, b: Circuit) -> bool:
    v = script_pop('lt')
    H.trace.append(('lt', flat_of(a), flat_of(b), v))
    return v


PRED_KINDS = ['s', 'n', 'a', 'o', 'c', 'g']


def mkpred(pk: str, W: int) -> PassPredicate:
    if pk == 's':
        return ScriptPred()
    if pk == 'n':
        return NotPredicate(ScriptPred())
    if pk == 'a':
        return AndPredicate(ScriptPred(), WidthPredicate(W + 1))
    if pk == 'o':
        return OrPredicate(ScriptPred(), WidthPredicate(W))
    if pk == 'c':
        return ChangePredicate()
    if pk == 'g':
        return GateCountPredicate('sq')
    raise AssertionError(pk)


def build_pass(node: tuple, W: int) -> BasePass:
    k = node[0]
    if k == 'leaf':
        return Body(node[1])
    if k == 'if':
        return IfThenElsePass(mkpred(node[1], W), [build_pass(node[2], W)],
                              None if node[3] is None else [build_pass(node[3], W)])
    if k == 'while':
        return WhileLoopPass(mkpred(node[1], W), [build_pass(node[2], W)])
    if k == 'dowhile':
        return DoWhileLoopPass(mkpred(node[1], W), [build_pass(node[2], W)])
    if k == 'dtd':
        return DoThenDecide(dtd_cond, [build_pass(node[1], W)])
    if k == 'pardo':
        return ParallelDo([[build_pass(b, W)] for b in node[2]], pd_less, pick_first=node[1])
    if k == 'seq':
        return Workflow([build_pass(b, W) for b in node[1]])
    if k == 'foreach':
        return ForEachBlockPass([build_pass(node[1], W)])
    raise AssertionError(k)


# --------------------------------------------------------------------------- reference interpreter
class RefRaise(Exception):
    def __init__(self, bid: int) -> None:
        super().__init__(bid)
        self.bid = bid


class Ctx:
    """Reference run context. Scripted outcomes / behaviours / batch orders are split lazily (solver
    decided) at the moment the *specification* consumes them; the concrete values are then handed
    to the real run."""

    def __init__(self, src: Any, max_script: int, behs: list, pass_down: dict) -> None:
        self.src = src
        self.max_script = max_script
        self.behs = behs
        self.script: list = []
        self.beh: dict = {}
        self.count: dict = {}
        self.n = 0
        self.trace: list = []
        self.next_order: list = []
        self.pass_down = pass_down

    def pop(self, forced: bool = False) -> bool:
        """Next scripted outcome: symbolic for the first max_script evaluations; afterwards the outcome is
        `forced` (the caller passes the value that ends its loop), so every path stays inside the bound."""
        if len(self.script) >= self.max_script:
            v = forced
        else:
            v = bool(self.src.P(0, 1))
        self.script.append(v)
        return v

    def behaviour(self, bid: int) -> int:
        if bid not in self.beh:
            self.beh[bid] = self.behs[self.src.P(0, len(self.behs) - 1)]
        return self.beh[bid]


def ref_body(ctx: Ctx, bid: int, S: State) -> None:
    ctx.n += 1
    if ctx.n > 40:
        raise OutOfBound()
    ctx.trace.append(('body', bid, S.rc.flat(), S.rd.nf(S.rc)))
    beh = ctx.behaviour(bid)
    if beh == BEH_RAISE:
        raise RefRaise(bid)
    if beh == BEH_NOOP or ctx.count.get(bid, 0) >= EDIT_LIMIT:
        return
    ctx.count[bid] = ctx.count.get(bid, 0) + 1
    w = S.rc.W
    S.rc.ops.append([(ctx.n % w,), ('T', 1000 * bid + ctx.n), None])
    d = S.rd
    d.placement = d.placement[1:] + d.placement[:1]
    d.imap = d.imap[1:] + d.imap[:1]
    d.fmap = d.fmap[-1:] + d.fmap[:-1]
    d.error = d.error + Fraction(1, 8)
    d.seed = (d.seed or 0) + bid + 1
    if w >= 2:
        d.medges = d.medges ^ {(0, 1)}
    d.user['user'] = list(d.user.get('user', [])) + [bid]
    if d.tk is not None:
        d.tk = 1 - d.tk


def ref_pred(ctx: Ctx, pk: str, S: State) -> bool:
    if pk == 's':
        v = ctx.pop()
    elif pk == 'n':
        v = not ctx.pop(True)
    elif pk == 'a':
        v = ctx.pop()            # and (width < W + 1) which is true
    elif pk == 'o':
        v = ctx.pop()            # or (width < W) which is false
    elif pk == 'c':
        now = S.rc.top()
        key = ChangePredicate.key
        if key not in S.rd.user:
            S.rd.user[key] = now
            v = True
        elif S.rd.user[key] == now:
            v = False
        else:
            S.rd.user[key] = now
            v = True
    elif pk == 'g':
        now = S.rc.num_single()
        key = GateCountPredicate.key
        if key not in S.rd.user:
            S.rd.user[key] = now
            v = True
        elif S.rd.user[key] == now:
            v = False
        else:
            S.rd.user[key] = now
            v = True
    else:
        raise AssertionError(pk)
    return v


def ref_run(ctx: Ctx, node: tuple, S: State) -> None:
    k = node[0]
    if k == 'leaf':
        ref_body(ctx, node[1], S)
    elif k == 'if':
        if ref_pred(ctx, node[1], S):
            ref_run(ctx, node[2], S)
        elif node[3] is not None:
            ref_run(ctx, node[3], S)
    elif k == 'while':
        while ref_pred(ctx, node[1], S):
            ref_run(ctx, node[2], S)
    elif k == 'dowhile':
        ref_run(ctx, node[2], S)
        while ref_pred(ctx, node[1], S):
            ref_run(ctx, node[2], S)
    elif k == 'dtd':
        old = S.copy()
        ref_run(ctx, node[1], S)
        v = ctx.pop()
        ctx.trace.append(('cond', old.rc.flat(), S.rc.flat(), v))
        if not v:
            S.rc, S.rd = old.rc, old.rd
    elif k == 'pardo':
        outs = []
        for b in node[2]:
            S2 = S.copy()
            ref_run(ctx, b, S2)
            outs.append(S2)
        if node[1]:
            # the runtime delivers a non-empty batch of finished branches in some order
            n = len(outs)
            size = ctx.src.P(1, n)
            rest = list(range(n))
            order = []
            for _ in range(size):
                order.append(rest.pop(ctx.src.P(0, len(rest) - 1)))
            ctx.next_order.append(order)
            ctx.trace.append(('next', tuple(order)))
            ctx.trace.append(('cancel',))
            cands = [outs[i] for i in order]
        else:
            cands = outs
        best = cands[0]
        for c in cands[1:]:
            v = ctx.pop()
            ctx.trace.append(('lt', c.rc.flat(), best.rc.flat(), v))
            if v:
                best = c
        S.rc, S.rd = best.rc, best.rd
    elif k == 'seq':
        for b in node[1]:
            ref_run(ctx, b, S)
    elif k == 'foreach':
        ref_foreach(ctx, node[1], S)
    else:
        raise AssertionError(k)


def sub_model_edges(rd: RD, loc: tuple) -> set:
    """Definition: block qudits a, b are coupled iff the physical qudits that the circuit qudits
    loc[a], loc[b] are placed on are coupled in the machine model."""
    out = set()
    for a in range(len(loc)):
        for b in range(a + 1, len(loc)):
            pa, pb = rd.placement[loc[a]], rd.placement[loc[b]]
            if (min(pa, pb), max(pa, pb)) in rd.medges:
                out.add((a, b))
    return out


def fresh_block_data(ctx: Ctx, rd: RD, loc: tuple, cyc: Any, idx: int, ceb: bool = False) -> RD:
    b = RD(len(loc))
    b.medges = sub_model_edges(rd, loc)
    b.seed = rd.seed
    b.user['subnumbering'] = {q: i for i, q in enumerate(loc)}
    b.user['point'] = (cyc, loc[0])
    b.user['calculate_error_bound'] = ceb
    for k, v in rd.user.items():
        if k.startswith(ForEachBlockPass.pass_down_key_prefix):
            b.user[k] = _deep(v)
        elif k.startswith(ForEachBlockPass.pass_down_block_specific_key_prefix) and idx in v:
            b.user[k] = _deep(v[idx])
    return b


def ref_foreach(ctx: Ctx, child: tuple, S: State) -> None:
    key = ForEachBlockPass.key
    if key not in S.rd.user:
        S.rd.user[key] = []
    blocks = [op for op in S.rc.ops if op[1][0] == 'B']
    if not blocks:
        S.rd.user[key].append([])
        return
    done = []
    for i, op in enumerate(blocks):
        sub = State(op[1][1].copy(), fresh_block_data(ctx, S.rd, op[0], op[2], i))
        ref_run(ctx, child, sub)
        done.append(sub)
    esum = Fraction(0)
    for op, sub in zip(blocks, done):
        op[1] = ('B', sub.rc)
        sub.rd.user['replaced'] = True
        esum += sub.rd.error
    S.rd.user[key].append(tuple(RDwithRC(s.rd, s.rc) for s in done))
    S.rd.error = 1 - (1 - S.rd.error) * (1 - esum)


# --------------------------------------------------------------------------- picks
def split(x: Any, lo: int, hi: int) -> Any:
    """rt.P, usable from code that runs natively (rt.nt): tracing is resumed just for the solver-decided
    binary ladder, so harness/reference code costs native time while every split is still z3's."""
    if rt.CONCRETE:
        return rt.P(x, lo, hi)
    from crosshair.tracers import ResumedTracing, is_tracing
    if is_tracing():
        return rt.P(x, lo, hi)
    with ResumedTracing():
        return rt.P(x, lo, hi)


class Src:
    """Stream of symbolic ints; P(lo, hi) consumes the next one and splits it (rt.P)."""

    def __init__(self, xs: list) -> None:
        self.xs = xs
        self.i = 0
        self.log: list = []

    def P(self, lo: int, hi: int) -> int:
        if self.i >= len(self.xs):
            raise OutOfBound()
        x = self.xs[self.i]
        self.i += 1
        v = split(x, lo, hi)
        assert v is not None
        self.log.append(v)
        return v
