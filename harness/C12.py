"""C12 - cancelling work removes it everywhere and disturbs nothing else (bounded)."""
from __future__ import annotations

from harness import C07 as _c07
from harness.rt_entry import obs_sharded, ob, sim  # noqa: F401

PROPERTY = 'C12'
LEVEL = 'model_checking'
RULE = _c07.RULE
ENCODED = _c07.ENCODED + [
    'bqskit.runtime.worker:Worker.cancel/_handle_cancel/_get_next_ready_task (discard rules)/'
    '_process_task_completion (cancels unfinished children)', 'bqskit.runtime.task:RuntimeTask.cancel/is_descendant_of',
    'bqskit.runtime.base:ServerBase.broadcast', 'bqskit.runtime.detached:DetachedServer.handle_cancel_comp_task/'
    'handle_disconnect', 'bqskit.compiler.compiler:Compiler.cancel/close',
]
ASSUMPTIONS = _c07.ASSUMPTIONS
BOUNDS = {
    'quick': 'flat1/flat2; trees cancel_map (cancel right after map of tasks that have children), cancel_after_next, '
             'cancel_nested, await_cancelled; client cancel and client disconnect while the task runs; <=1 delay everywhere '
             '(message level, line level on the listed trees, mgr2x1 for cancel_map/cancel_nested), <=2 delays for '
             'cancel_map/cancel_nested on flat1/flat2',
    'thorough': 'adds flat3, mgr2x1, mgr1x2, <=2 delays with rank<=3, line level on flat2 with 1 delay',
}
OUTSIDE = _c07.OUTSIDE


def obligations(tier: str) -> list[dict]:
    obs = []
    shapes = ('cancel_map', 'cancel_after_next', 'cancel_nested', 'await_cancelled')
    if tier == 'quick':
        for topo in ('flat1', 'flat2'):
            for sh in shapes:
                obs.append(ob('msg/%s/%s/K1' % (topo, sh), topo, [sh], 'cancel', 1, 200))
        for sh in ('client_cancel', 'client_disconnect'):
            obs.append(ob('msg/flat2/%s/K1' % sh, 'flat2', [sh], 'cancel', 1, 200))
        for sh in ('cancel_map', 'cancel_after_next', 'cancel_nested'):
            obs.append(ob('line/flat2/%s/K1' % sh, 'flat2', [sh], 'cancel', 1, 240, line=True, maxrank=1))
        obs.append(ob('line/flat1/cancel_nested/K1', 'flat1', ['cancel_nested'], 'cancel', 1, 240, line=True, maxrank=1))
        for sh, k in (('cancel_map', 1), ('cancel_nested', 2)):
            obs.extend(obs_sharded(2 * k, 'msg/flat1/%s/K2' % sh, 'flat1', [sh], 'cancel', 2, 240))
            obs.extend(obs_sharded(3 * k, 'msg/flat2/%s/K2' % sh, 'flat2', [sh], 'cancel', 2, 240))
            obs.append(ob('msg/mgr2x1/%s/K1' % sh, 'mgr2x1', [sh], 'cancel', 1, 240))
    else:
        for topo in ('flat1', 'flat2', 'flat3', 'mgr2x1', 'mgr1x2'):
            for sh in shapes + ('client_cancel', 'client_disconnect'):
                obs.append(ob('msg/%s/%s/K2' % (topo, sh), topo, [sh], 'cancel', 2, 600, maxrank=3))
        for sh in shapes:
            obs.append(ob('line/flat2/%s/K1' % sh, 'flat2', [sh], 'cancel', 1, 600, line=True, maxrank=1))
        obs.append(ob('msg/flat2/cancel+other-client/K2', 'flat2', ['cancel_map', 'map2'], 'cancel', 2, 600))
    return obs
