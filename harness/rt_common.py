"""Scenarios for the runtime properties (C07, C12, C13-B, C14, C15-B) on the E3 simulator."""
from __future__ import annotations

from typing import Any

from bqskit.compiler.basepass import BasePass
from bqskit.ir.circuit import Circuit
from bqskit.runtime import get_runtime
from vf import rt
from vf.rtsim import Schedule, World, flat_world, managed_world

LOG: list = []          # execution log of task bodies (tag per started body)
OBS: list = []          # values observed by awaiting tasks


def leaf(x: int) -> tuple:
    LOG.append(('leaf', x))
    return ('r', x)


def slow_leaf(x: int) -> tuple:
    """A leaf whose single step takes a while (three yield points inside one synchronous step)."""
    busy('slow-leaf-mid-step')
    LOG.append(('leaf', x))
    busy('slow-leaf-mid-step')
    busy('slow-leaf-mid-step')
    return ('r', x)


def boom(x: int) -> tuple:
    LOG.append(('boom', x))
    if x == 2:
        raise ValueError('boom-%d' % x)
    return ('r', x)


async def parent(x: int) -> tuple:
    LOG.append(('parent', x))
    r = await get_runtime().submit(leaf, 10 * x)
    OBS.append(('parent-got', x, r))
    return ('p', x, r)


async def parent_boom(x: int) -> tuple:
    LOG.append(('parent', x))
    r = await get_runtime().submit(boom, x)
    return ('p', x, r)


async def parent_map(x: int) -> tuple:
    LOG.append(('parent', x))
    r = await get_runtime().map(leaf, [10 * x, 10 * x + 1])
    OBS.append(('parent-got', x, tuple(r)))
    return ('p', x, tuple(r))


async def slow_parent(x: int) -> tuple:
    """A task that itself has children (so that cancelling it must stop descendants)."""
    LOG.append(('slow', x))
    busy('slow-parent-mid-step')      # the cancel may arrive while this step is still running
    r = await get_runtime().map(leaf, [100 * x, 100 * x + 1])
    LOG.append(('slow-done', x))
    return ('s', x, tuple(r))


WORLD: list = []        # the running World (for busy())


def busy(label: str = 'task-busy') -> None:
    """A task body that takes a while: a yield point at which every other thread may run (time passing
    inside one step of a task)."""
    if WORLD:
        s = WORLD[0].sched
        import threading
        if s.current is not None and threading.current_thread() is s.current.thread:
            me = s.current
            s.park(lambda: True, label)
            # C14: a worker that has processed SHUTDOWN (or lost its boss) kills itself; its task code never resumes.
            # If this body resumes although the worker's incoming thread has ended, the worker outlived its shutdown.
            for t in s.threads:
                if t.node is me.node and t is not me and t.name.endswith('.in') and t.done:
                    LOG.append(('ran-after-shutdown', label))


SHAPES = ['two_seq', 'submit', 'map2', 'map2_slow', 'map3', 'next3', 'nested', 'nested_map', 'two_rev', 'cancel_map', 'cancel_after_next',
          'cancel_nested', 'raise_leaf', 'raise_nested', 'await_cancelled']


class TreePass(BasePass):
    def __init__(self, shape: str) -> None:
        self.shape = shape

    async def run(self, circuit: Circuit, data: Any) -> None:
        r = get_runtime()
        s = self.shape
        LOG.append(('root', s))
        if s == 'submit':
            out: Any = await r.submit(leaf, 1)
        elif s == 'map2':
            out = tuple(await r.map(leaf, [1, 2]))
        elif s == 'map2_slow':
            out = tuple(await r.map(slow_leaf, [1, 2]))
        elif s == 'map3':
            out = tuple(await r.map(leaf, [1, 2, 3]))
        elif s == 'next3':
            f = r.map(leaf, [1, 2, 3])
            got: list = []
            batches = 0
            while len(got) < 3:
                b = await r.next(f)
                batches += 1
                got.extend(b)
                if batches > 5:
                    break
            out = ('next', tuple(sorted(got)), len(got))
        elif s == 'next_mix':
            f = r.map(leaf, [1, 2, 3])
            got = list(await r.next(f))
            busy()
            if len(got) < 3:
                got += await r.next(f)
            busy()
            x = await r.submit(leaf, 9)          # a different future while the map may still be incomplete
            rounds = 0
            while len(got) < 3 and rounds < 5:
                got += await r.next(f)
                rounds += 1
            out = ('mix', tuple(sorted(got)), x)
        elif s == 'nested':
            out = tuple(await r.map(parent, [1, 2]))
        elif s == 'nested_map':
            out = tuple(await r.map(parent_map, [1, 2]))
        elif s == 'two_rev':
            f1 = r.submit(leaf, 1)
            f2 = r.submit(leaf, 2)
            r2 = await f2
            r1 = await f1
            out = (r1, r2)
        elif s == 'two_seq':
            r1 = await r.submit(leaf, 1)
            r2 = await r.submit(leaf, 2)
            out = (r1, r2)
        elif s == 'cancel_map':
            f = r.map(slow_parent, [1, 2])
            r.cancel(f)
            out = ('after-cancel', await r.submit(leaf, 3))
        elif s == 'cancel_after_next':
            f = r.map(leaf, [1, 2, 3])
            b = await r.next(f)
            r.cancel(f)
            g = await r.submit(leaf, 9)
            out = ('after-cancel', len(b) >= 1, all(v == ('r', [1, 2, 3][i]) for i, v in b), g)
        elif s == 'cancel_nested':
            f = r.map(slow_parent, [1, 2])
            g = await r.submit(leaf, 5)      # let the system work a little
            r.cancel(f)
            h = await r.submit(leaf, 6)
            out = ('after-cancel', g, h)
        elif s == 'await_cancelled':
            f = r.submit(leaf, 1)
            r.cancel(f)
            try:
                await f
                out = ('await-returned',)
            except RuntimeError as e:
                out = ('await-raised', 'cancel' in str(e).lower())
        elif s == 'raise_late':
            f = r.map(boom, [1, 2, 3])
            b = await r.next(f)          # take the first answer(s) and return: the failing sibling may report later
            out = ('first', len(b) >= 1)
        elif s == 'raise_leaf':
            out = tuple(await r.map(boom, [1, 2, 3]))
        elif s == 'raise_nested':
            out = tuple(await r.map(parent_boom, [1, 2]))
        elif s == 'raise_deep':
            # the failing task sits two levels down and its parent hangs on the root's SECOND future, so no
            # mailbox index on the way coincides with the compilation's id
            first = await r.submit(leaf, 1)
            out = (first,) + tuple(await r.map(parent_boom, [1, 2]))
        else:
            raise AssertionError(s)
        data['out'] = out


EXPECT = {
    'submit': ('r', 1),
    'map2': (('r', 1), ('r', 2)),
    'map2_slow': (('r', 1), ('r', 2)),
    'map3': (('r', 1), ('r', 2), ('r', 3)),
    'next3': ('next', ((0, ('r', 1)), (1, ('r', 2)), (2, ('r', 3))), 3),
    'next_mix': ('mix', ((0, ('r', 1)), (1, ('r', 2)), (2, ('r', 3))), ('r', 9)),
    'nested': (('p', 1, ('r', 10)), ('p', 2, ('r', 20))),
    'nested_map': (('p', 1, (('r', 10), ('r', 11))), ('p', 2, (('r', 20), ('r', 21)))),
    'two_rev': (('r', 1), ('r', 2)),
    'two_seq': (('r', 1), ('r', 2)),
    'cancel_map': ('after-cancel', ('r', 3)),
    'cancel_after_next': ('after-cancel', True, True, ('r', 9)),
    'cancel_nested': ('after-cancel', ('r', 5), ('r', 6)),
    'await_cancelled': ('await-raised', True),
    'client_cancel': ('cancelled', True, ('r', 1)),
    'client_disconnect': ('closed',),
}
# bodies that must run exactly once (tags) when nothing is cancelled / raised
ONCE = {
    'submit': [('leaf', 1)], 'map2': [('leaf', 1), ('leaf', 2)], 'map2_slow': [('leaf', 1), ('leaf', 2)], 'map3': [('leaf', 1), ('leaf', 2), ('leaf', 3)],
    'next3': [('leaf', 1), ('leaf', 2), ('leaf', 3)],
    'next_mix': [('leaf', 1), ('leaf', 2), ('leaf', 3), ('leaf', 9)],
    'nested': [('parent', 1), ('parent', 2), ('leaf', 10), ('leaf', 20)],
    'nested_map': [('parent', 1), ('parent', 2), ('leaf', 10), ('leaf', 11), ('leaf', 20), ('leaf', 21)],
    'two_rev': [('leaf', 1), ('leaf', 2)], 'two_seq': [('leaf', 1), ('leaf', 2)],
    'cancel_map': [('leaf', 3)], 'cancel_after_next': [('leaf', 9)], 'cancel_nested': [('leaf', 5), ('leaf', 6)],
    'await_cancelled': [], 'client_cancel': [('leaf', 1)], 'client_disconnect': [],
}
CANCEL_SHAPES = ('cancel_map', 'cancel_after_next', 'cancel_nested', 'await_cancelled', 'client_cancel',
                 'client_disconnect')
RAISE_SHAPES = ('raise_leaf', 'raise_nested', 'raise_late', 'raise_deep')


async def hold(x: int) -> tuple:
    """A root task with work in flight for the client-side cancel / disconnect scenarios."""
    LOG.append(('hold', x))
    r = await get_runtime().map(parent, [1, 2])
    return ('h', tuple(r))


class HoldPass(BasePass):
    async def run(self, circuit: Circuit, data: Any) -> None:
        LOG.append(('root', 'hold'))
        data['out'] = await get_runtime().submit(hold, 1)


def wait_quiet() -> None:
    """Client-side pause until nothing else in the system can move (every in-flight message delivered)."""
    if WORLD:
        s = WORLD[0].sched
        me = s.current
        s.park(lambda: not any(t is not me for t in s.enabled_raw(me)), 'client-wait-quiescence')


def client_script(shape: str, mode: str = 'compile') -> Any:
    if shape == 'raise_late':
        def script3(c: Any) -> Any:
            seen = []
            tid = None
            for step in ('submit+result', 'status-after-quiescence'):
                try:
                    if step == 'submit+result':
                        tid = c.submit(Circuit(1), [TreePass(shape)], request_data=True)
                        c.result(tid)
                    else:
                        wait_quiet()
                        c.status(tid)
                    seen.append('ok')
                except Exception as e:  # noqa
                    chain, x = [], e
                    while x is not None and len(chain) < 5:
                        chain.append(str(x)[-300:])
                        x = x.__cause__
                    seen.append(' <- '.join(chain))
                    break
            return ('late', tuple(seen))
        return script3
    if shape in ('client_cancel', 'client_disconnect'):
        def script2(c: Any) -> Any:
            try:
                tid = c.submit(Circuit(1), [HoldPass()], request_data=True)
                if shape == 'client_cancel':
                    ok = c.cancel(tid)
                    tid2 = c.submit(Circuit(1), [TreePass('submit')], request_data=True)
                    res = c.result(tid2)
                    return ('ok', ('cancelled', ok, res[1]['out']))
                c.close()
                return ('ok', ('closed',))
            except Exception as e:  # noqa
                return ('exc', type(e).__name__, str(e)[-300:])
        return script2

    def script(c: Any) -> Any:
        try:
            tid = c.submit(Circuit(1), [TreePass(shape)], request_data=True)
            if mode == 'status_first':
                c.status(tid)
            res = c.result(tid)
            return ('ok', res[1]['out'] if 'out' in res[1] else None)
        except Exception as e:  # noqa
            chain, x = [], e
            while x is not None and len(chain) < 5:
                chain.append(str(x)[-300:])
                x = x.__cause__
            return ('exc', type(e).__name__, ' <- '.join(chain))
    return script


def build_world(topo: str, schedule: Schedule, n_clients: int = 1, kind: str = 'detached', max_steps: int = 500) -> World:
    if topo.startswith('flat'):
        return flat_world(schedule, int(topo[4:]), n_clients, kind, max_steps)
    if topo.startswith('mgr'):           # mgr2x1 = 2 managers with 1 worker each; mgr1x2 ...
        a, b = topo[3:].split('x')
        return managed_world(schedule, [int(b)] * int(a), n_clients, max_steps)
    raise AssertionError(topo)


def run_scenario(topo: str, shapes: list[str], dev: dict, crashes: dict | None = None, kind: str = 'detached',
                 line_level: bool = False, max_steps: int = 500) -> dict:
    """One concrete run. Returns everything the oracles need."""
    from bqskit.runtime.task import RuntimeTask
    from bqskit.runtime.worker import Worker
    LOG.clear()
    OBS.clear()
    RuntimeTask.task_counter = 0
    sch = Schedule(dev, crashes)
    w = build_world(topo, sch, n_clients=len(shapes), kind=kind, max_steps=max_steps)
    WORLD[:] = [w]
    line_funcs = None
    if line_level:
        line_funcs = [Worker._process_await, Worker._handle_result, Worker._get_desired_result,
                      Worker._process_task_completion, Worker._handle_cancel, Worker._get_next_ready_task,
                      Worker._add_task, Worker.cancel, Worker.recv_incoming]
    try:
        w.start([client_script(s) for s in shapes], line_funcs)
        reason = w.run()
        out = {
            'reason': reason,
            'decisions': w.sched.decisions,
            'steps': w.sched.step,
            'clients': [getattr(c, '_sim_result', None) for c in w.clients],
            'client_done': [t.done for t in w.client_threads],
            'client_label': [t.label for t in w.client_threads],
            'errors': [(n, type(e).__name__, str(e)[:200]) for n, e in w.thread_errors()],
            'log': list(LOG),
            'trace': list(w.sched.trace),
            'crashed': list(w.crashed),
            'world': w,
        }
        return out
    finally:
        w.finish()
        WORLD[:] = []


def tables(w: World) -> dict:
    """What every node still holds (for the 'tables empty at quiescence' oracle)."""
    t: dict = {}
    for wk in w.workers:
        t[wk._sim_name] = {
            'tasks': len(wk._tasks), 'delayed': len(wk._delayed_tasks), 'mailboxes': len(wk._mailboxes),
            'ready': len(wk._ready_task_ids.items),
        }
    s = w.server
    t['server'] = {'mailboxes': len(s.mailboxes), 'clients_open': sum(len(v) for v in s.clients.values())}
    return t


_BASE: dict = {}


def baseline_decisions(key: str, topo: str, shapes: list[str], kind: str, line_level: bool, max_steps: int) -> int:
    """Number of scheduling decisions of the deviation-free run (bounds the deviation positions)."""
    if key not in _BASE:
        r = rt.nt(run_scenario, topo, shapes, {}, None, kind, line_level, max_steps)
        _BASE[key] = r['decisions']
    return _BASE[key]
