"""C20 (P) - PermutationMatrix.from_qudit_location / gen_swap_unitary as exact 0/1 matrices.

Symbolic: number of qudits, the location (any ordered selection of distinct qudits, any length 0..n)
and the basis column. All three are split by the solver ladder, then the real code (UnitaryBuilder +
numpy tensordot) builds the matrix natively and the column is compared *exactly* (integers 0/1, no
tolerance) with the definition:

    basis state |x_0 x_1 .. x_{n-1}>  (x_0 most significant)  is sent to  |y_0 .. y_{n-1}>  with
    y_i = x_{location[i]} for i < len(location)          ("moves location[i] to position i")

and, for the positions the docstring leaves open, y_i = x_{s(i)} for one permutation s of the qudits that
is the same for every column (s is read off the unit columns and must extend `location`).
"""
from __future__ import annotations

from typing import Any

import numpy as np

import bqskit.ir  # noqa: F401
from bqskit.qis.permutation import PermutationMatrix
from harness.c20_graph import Src, call, raised_fp
from vf import rt


def digits(x: int, r: int, n: int) -> list[int]:
    out = []
    for _ in range(n):
        out.append(x % r)
        x //= r
    return out[::-1]


def undigits(ds: list[int], r: int) -> int:
    x = 0
    for d in ds:
        x = x * r + d
    return x


def column_fp(M: Any, col: int, what: str) -> tuple[int | None, str | None]:
    """Exactly one entry equal to 1, all others exactly 0 -> its row."""
    c = M[:, col]
    ones = [i for i in range(len(c)) if c[i] == 1]
    if len(ones) != 1 or any(c[i] != 0 for i in range(len(c)) if i != ones[0]):
        rt.log(what, 'column', col, '=', list(c))
        return None, '%s:not-a-0/1-column' % what
    return ones[0], None


def chk_perm(r: int, n: int, loc: list, col: int) -> str | None:
    v, e = call(PermutationMatrix.from_qudit_location, n, r, list(loc))
    if e is not None:
        return raised_fp('from_qudit_location', e)
    M = np.asarray(v.numpy if hasattr(v, 'numpy') else v)
    dim = r ** n
    if M.shape != (dim, dim):
        return 'from_qudit_location:shape'
    if tuple(v.radixes) != (r,) * n:
        return 'from_qudit_location:radixes'
    if r == 2:
        v2, e = call(PermutationMatrix.from_qubit_location, n, list(loc))
        if e is not None:
            return raised_fp('from_qubit_location', e)
        if not np.array_equal(np.asarray(v2.numpy), M):
            return 'from_qubit_location:differs'
    # s: output position i carries input qudit s[i]; read from the columns with a single digit 1
    s: list = [None] * n
    for q in range(n):
        unit = undigits([1 if j == q else 0 for j in range(n)], r)
        row, fp = column_fp(M, unit, 'from_qudit_location')
        if fp:
            return fp
        y = digits(row, r, n)
        if sorted(y) != [0] * (n - 1) + [1]:
            rt.log('unit column of qudit', q, 'goes to', y)
            return 'from_qudit_location:not-a-qudit-permutation'
        s[y.index(1)] = q
    if sorted(x for x in s if x is not None) != list(range(n)) or s[:len(loc)] != list(loc):
        rt.log('from_qudit_location(%d, %d, %r) puts input qudits %r at positions 0..%d' % (n, r, loc, s, n - 1))
        return 'from_qudit_location:wrong-qudit-order'
    row, fp = column_fp(M, col, 'from_qudit_location')
    if fp:
        return fp
    x = digits(col, r, n)
    want = undigits([x[s[i]] for i in range(n)], r)
    if row != want:
        rt.log('from_qudit_location(%d, %d, %r): column %r -> row %r, expected %r' % (
            n, r, loc, x, digits(row, r, n), digits(want, r, n)))
        return 'from_qudit_location:wrong-column'
    return None


def chk_swap(r: int, col: int) -> str | None:
    v, e = call(PermutationMatrix.gen_swap_unitary, r)
    if r < 2:
        if e is None:
            return 'gen_swap_unitary:bad-radix-accepted'
        return None if isinstance(e, ValueError) else raised_fp('gen_swap_unitary', e)
    if e is not None:
        return raised_fp('gen_swap_unitary', e)
    M = np.asarray(v.numpy)
    if M.shape != (r * r, r * r) or tuple(v.radixes) != (r, r):
        return 'gen_swap_unitary:shape'
    row, fp = column_fp(M, col, 'gen_swap_unitary')
    if fp:
        return fp
    a, b = digits(col, r, 2)
    if row != undigits([b, a], r):
        return 'gen_swap_unitary:wrong-column'
    return None


def p_run(ints: list) -> bool:
    rt.begin()
    S = rt.SHARD
    s = Src([], ints)
    if S['fam'] == 'perm':
        r = S['radix']
        n = s.int(S['nlo'], S['nhi'])
        m = s.int(0, n)
        loc = s.location(n, m)
        col = s.int(0, r ** n - 1)
        fn, args = chk_perm, (r, n, loc, col)
    elif S['fam'] == 'perm_hist':
        # the answer must not depend on what was asked before (in this process): an earlier call for the same
        # (num_qudits, location) with another radix, or for another location of the same length, then the checked call
        r1 = s.int(2, S['rmax'])
        r = s.int(2, S['rmax'])
        n = s.int(S['nlo'], S['nhi'])
        m = s.int(0, n)
        loc = s.location(n, m)
        loc1 = loc if s.int(0, 1) == 0 else s.location(n, m)
        col = s.int(0, r ** n - 1)

        def hist(r1: int, loc1: list, r: int, n: int, loc: list, col: int) -> 'str | None':
            call(PermutationMatrix.from_qudit_location, n, r1, list(loc1))
            if r1 == 2:
                call(PermutationMatrix.from_qubit_location, n, list(loc1))
            return chk_perm(r, n, loc, col)
        fn, args = hist, (r1, loc1, r, n, loc, col)
    else:
        r = s.int(-1, S['rmax'])
        col = s.int(0, max(r * r - 1, 0) if r >= 2 else 0)
        fn, args = chk_swap, (r, col)
    if rt.CONCRETE:
        rt.log('family', S['fam'], 'inputs', args)
    fp = rt.nt(fn, *args)
    rt.reach()
    if fp is None:
        return True
    return rt.fail(fp)


def p_entry(x0: int, x1: int, x2: int, x3: int, x4: int, x5: int, x6: int, x7: int, x8: int, x9: int, x10: int,
            x11: int, x12: int, x13: int) -> bool:
    """
    post: _
    """
    return p_run([x0, x1, x2, x3, x4, x5, x6, x7, x8, x9, x10, x11, x12, x13])


def perm_obligations(tier: str, T: int) -> list[dict]:
    obs = []

    def ob(name: str, **S: Any) -> None:
        obs.append({'name': 'P/' + name, 'func': 'p_entry', 'shard': S, 'timeout': T})

    ob('swap/r<=5', fam='swap', rmax=5)
    ob('perm/radix2/n1-4', fam='perm', radix=2, nlo=1, nhi=4)
    ob('perm/radix3/n1-3', fam='perm', radix=3, nlo=1, nhi=3)
    ob('perm-after-earlier-call/r<=3/n1-2', fam='perm_hist', rmax=3, nlo=1, nhi=2)
    if tier != 'quick':
        ob('perm-after-earlier-call/r<=4/n3', fam='perm_hist', rmax=4, nlo=3, nhi=3)
        ob('perm/radix2/n5', fam='perm', radix=2, nlo=5, nhi=5)
        ob('perm/radix3/n4', fam='perm', radix=3, nlo=4, nhi=4)
        ob('perm/radix4/n1-3', fam='perm', radix=4, nlo=1, nhi=3)
    return obs
